use seq_io::fastq;
use seq_io::fastq::Record as _;
use std::io::{self, Read, Seek, SeekFrom};
use std::panic::{catch_unwind, AssertUnwindSafe};

/// cursor whose reads fail while `fail_reads` > 0 (seeks always succeed)
struct Flaky { inner: io::Cursor<Vec<u8>>, fail_reads: usize, armed: bool }
impl Read for Flaky {
    fn read(&mut self, b: &mut [u8]) -> io::Result<usize> {
        if self.armed && self.fail_reads > 0 { self.fail_reads -= 1; return Err(io::Error::new(io::ErrorKind::Other, "read failed")); }
        self.inner.read(b)
    }
}
impl Seek for Flaky { fn seek(&mut self, p: SeekFrom) -> io::Result<u64> { self.inner.seek(p) } }

fn main() {
    let mut bad = 0;
    // D8: CRLF record, last line without terminator, lengths differ (3 vs 4)
    let mut r = fastq::Reader::new(&b"@a\r\nACG\r\n+\r\nIIII"[..]);
    let res = r.next().unwrap();
    let ok = matches!(res, Err(fastq::Error::UnequalLengths { seq: 3, qual: 4, .. }));
    println!("D8 seq=ACG qual=IIII (CRLF, unterminated last line): {:?} -> {}", res.as_ref().map(|r| (r.seq().len(), r.qual().len())).map_err(|e| e.to_string()), if ok { "ok" } else { "DEFECT (accepted with unequal lengths)" });
    if !ok { bad += 1; }
    // control: equal lengths accepted
    let mut r = fastq::Reader::new(&b"@a\r\nACGT\r\n+\r\nIIII"[..]);
    assert!(r.next().unwrap().is_ok());
    // LF variant of the unequal record is rejected (so LF/CRLF disagree)
    let mut r = fastq::Reader::new(&b"@a\nACG\n+\nIIII"[..]);
    assert!(r.next().unwrap().is_err());

    // D9: seek outside the buffer, the refill after the (successful) source seek fails, then next()
    let mut data = Vec::new();
    for i in 0..40 { data.extend_from_slice(format!("@r{}\nACGTACGT\n+\nIIIIIIII\n", i).as_bytes()); }
    let src = Flaky { inner: io::Cursor::new(data), fail_reads: 1, armed: false };
    let mut rdr = fastq::Reader::with_capacity(src, 64);
    let mut first = None;
    for i in 0..30 { rdr.next().unwrap().unwrap(); if i == 0 { first = Some(rdr.position().clone()); } }
    let out = catch_unwind(AssertUnwindSafe(|| {
        // arm the failure: the next read (the refill inside seek) fails
        let p = first.clone().unwrap();
        // reach into the source is not possible through the public API; emulate by a second reader below
        p
    }));
    let _ = out;
    // second attempt with a source that is armed from the start but lets the initial fills through
    struct FailNth { inner: io::Cursor<Vec<u8>>, reads: usize, fail_at: usize }
    impl Read for FailNth { fn read(&mut self, b: &mut [u8]) -> io::Result<usize> { self.reads += 1; if self.reads == self.fail_at { return Err(io::Error::new(io::ErrorKind::Other, "read failed")); } self.inner.read(b) } }
    impl Seek for FailNth { fn seek(&mut self, p: SeekFrom) -> io::Result<u64> { self.inner.seek(p) } }
    let mut worst = String::from("ok");
    for fail_at in 2..60 {
        let mut data = Vec::new();
        for i in 0..40 { data.extend_from_slice(format!("@r{}\nACGTACGT\n+\nIIIIIIII\n", i).as_bytes()); }
        let src = FailNth { inner: io::Cursor::new(data), reads: 0, fail_at };
        let mut rdr = fastq::Reader::with_capacity(src, 64);
        let res = catch_unwind(AssertUnwindSafe(|| {
            let mut first = None;
            for i in 0..30 { match rdr.next() { Some(Ok(_)) => {}, _ => return 0 }; if i == 0 { first = Some(rdr.position().clone()); } }
            let e = rdr.seek(&first.unwrap());
            if e.is_err() { let _ = rdr.next(); return 1; }
            2
        }));
        if res.is_err() { worst = format!("PANIC in next() after a failed seek (fail_at={})", fail_at); break; }
    }
    println!("D9 next() after seek() failed in its refill: {}", worst);
    if worst != "ok" { bad += 1; }
    std::process::exit(bad);
}
