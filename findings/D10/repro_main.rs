use seq_io::fastq;
use seq_io::fastq::Record as _;
use std::io::{self, Read, Seek, SeekFrom};
struct FailSeek { inner: io::Cursor<Vec<u8>>, fail_next_seek: bool }
impl Read for FailSeek { fn read(&mut self, b: &mut [u8]) -> io::Result<usize> { self.inner.read(b) } }
impl Seek for FailSeek { fn seek(&mut self, p: SeekFrom) -> io::Result<u64> {
    if self.fail_next_seek { self.fail_next_seek = false; return Err(io::Error::new(io::ErrorKind::Other, "seek failed")); }
    self.inner.seek(p) } }
fn main() {
    let mut data = Vec::new();
    for i in 1..=12 { data.extend_from_slice(format!("@s{}\nACGTACGT\n+\nIIIIIIII\n", i).as_bytes()); }
    let mut bad = 0;
    for cap in [30usize, 40, 64, 100] {
        let mut rdr = fastq::Reader::with_capacity(FailSeek { inner: io::Cursor::new(data.clone()), fail_next_seek: false }, cap);
        let mut pos = vec![];
        while let Some(r) = rdr.next() { r.unwrap(); pos.push(rdr.position().clone()); }
        // arm the failure through a second reader is impossible; instead wrap: we need access to the source -> use a flag file
        drop(rdr);
        // new reader whose first real seek fails
        let mut rdr = fastq::Reader::with_capacity(FailSeek { inner: io::Cursor::new(data.clone()), fail_next_seek: true }, cap);
        for _ in 0..8 { rdr.next().unwrap().unwrap(); }     // buffer now holds records around s8
        let e = rdr.seek(&pos[0]);                           // far seek (s1 is no longer in the buffer): fails
        assert!(e.is_err(), "cap {}: expected the seek to fail", cap);
        let r2 = rdr.seek(&pos[0]);                          // retry
        let got = match (r2, rdr.next()) { (Ok(()), Some(Ok(r))) => r.id().unwrap().to_string(), (a, b) => format!("{:?}/{:?}", a.is_ok(), b.map(|x| x.is_ok())) };
        let ok = got == "s1";
        println!("D10 cap {}: retried seek to s1 then next() -> {} {}", cap, got, if ok { "ok" } else { "DEFECT" });
        if !ok { bad += 1; }
    }
    std::process::exit(bad);
}
