use seq_io::fasta;
fn main() {
    let mut bad = 0;
    // leading blank lines that outgrow the buffer: position of the first record
    for (input, want_line, want_byte) in [(&b"\n\n\n\n>a\nA\n"[..], 5u64, 4u64), (&b"\r\n\r\n\r\n>a\nA\n"[..], 4, 6), (&b"\n\n\n\n\n\n\n\n\n\n>id\nACGT\n"[..], 11, 10)] {
        let mut seen = std::collections::BTreeSet::new();
        for cap in 3..40 {
            let mut r = fasta::Reader::with_capacity(input, cap);
            r.next().unwrap().unwrap();
            let p = r.position().unwrap().clone();
            seen.insert((p.line(), p.byte()));
        }
        let ok = seen.len() == 1 && seen.contains(&(want_line, want_byte));
        println!("D2 position over capacities 3..40 for {:?}: {:?} (want ({}, {})) -> {}", String::from_utf8_lossy(input), seen, want_line, want_byte, if ok { "ok" } else { "DEFECT" });
        if !ok { bad += 1; }
    }
    // InvalidStart line
    let mut seen = std::collections::BTreeSet::new();
    for cap in 3..40 {
        let mut r = fasta::Reader::with_capacity(&b"\n\n\n\n\n\nxyz\n"[..], cap);
        match r.next() { Some(Err(fasta::Error::InvalidStart { line, found })) => { seen.insert((line, found)); } other => panic!("{:?}", other.map(|r| r.is_ok())) }
    }
    let ok = seen.len() == 1 && seen.contains(&(7, b'x'));
    println!("D2 InvalidStart line over capacities: {:?} (want (7, 'x')) -> {}", seen, if ok { "ok" } else { "DEFECT" });
    if !ok { bad += 1; }
    std::process::exit(bad);
}
