use seq_io::fastq;
use seq_io::parallel::parallel_fastq_init;
#[derive(Debug)]
enum E { Fq(fastq::Error), Init(String) }
impl From<fastq::Error> for E { fn from(e: fastq::Error) -> E { E::Fq(e) } }
impl From<String> for E { fn from(e: String) -> E { E::Init(e) } }
fn main() {
    let r: Result<Option<()>, E> = parallel_fastq_init(
        2, 2,
        || Err::<fastq::Reader<&[u8]>, String>("reader init failed".to_string()),
        || Ok::<u8, String>(0),
        || Ok::<(), String>(()),
        |_rec, _out, _s| {},
        |_rec, _out, _s| None::<()>,
    );
    println!("result: {:?}", r);
    assert!(matches!(r, Err(E::Init(_))));
}
