use seq_io::{fasta, fastq};
use seq_io::fastq::Record as _;
use std::io::{self, Read};
use std::panic::{catch_unwind, AssertUnwindSafe};

/// source that fails once (with the given kind) at its k-th read call, then continues
struct FailOnce<'a> { data: &'a [u8], pos: usize, calls: usize, fail_at: usize, chunk: usize }
impl<'a> Read for FailOnce<'a> {
    fn read(&mut self, buf: &mut [u8]) -> io::Result<usize> {
        self.calls += 1;
        if self.calls == self.fail_at { return Err(io::Error::new(io::ErrorKind::Other, "transient")); }
        let n = buf.len().min(self.chunk).min(self.data.len() - self.pos);
        buf[..n].copy_from_slice(&self.data[self.pos..self.pos + n]);
        self.pos += n;
        Ok(n)
    }
}

fn main() {
    let mut bad = 0;
    // ---- D5: exact-count read with fewer records remaining
    let input = b"@a\nAC\n+\nII\n@b\nGT\n+\nII\n";
    let mut r = fastq::Reader::new(&input[..]);
    let mut set = fastq::RecordSet::default();
    let res = r.read_record_set_exact(&mut set, Some(5));
    let ids: Option<Vec<String>> = catch_unwind(AssertUnwindSafe(|| set.into_iter().map(|r| r.id().unwrap().to_string()).collect())).ok();
    let ok = matches!(res, Some(Ok(()))) && ids.as_deref() == Some(&["a".to_string(), "b".to_string()][..]);
    println!("D5 exact(5) with 2 records left: returned {:?}, set.len()={}, records={:?} -> {}", res.is_some(), set.len(), ids, if ok { "ok" } else { "DEFECT" });
    if !ok { bad += 1; }

    // ---- D6: invalid record after two valid ones, set re-used from an earlier input
    let mut set = fastq::RecordSet::default();
    let mut r0 = fastq::Reader::new(&b"@x\nTTTT\n+\nIIII\n@y\nTTTT\n+\nIIII\n"[..]);
    r0.read_record_set(&mut set).unwrap().unwrap();
    let mut r = fastq::Reader::new(&b"@a\nAC\n+\nII\n@b\nGT\n+\nII\n@c\nACGT\n+\nI\n"[..]);
    let res = r.read_record_set(&mut set);
    let seen: Option<Vec<String>> = catch_unwind(AssertUnwindSafe(|| set.into_iter().map(|r| String::from_utf8_lossy(r.head()).to_string()).collect())).ok();
    let consistent = matches!(res, Some(Err(_))) && seen.as_deref() == Some(&[][..]);
    println!("D6 error mid-batch: result is_err={}, set.len()={}, iterating the set gives {:?} -> {}", matches!(res, Some(Err(_))), set.len(), seen,
        if consistent { "ok (set empty; the two preceding records are not delivered: known finding)" } else { "DEFECT (set holds offsets over foreign bytes)" });
    if !consistent { bad += 1; }

    // ---- D7: transient I/O error while a record spans the buffer end, then next() again
    let data = b"@a\nACGT\n+\nIIII\n@b\nACGTACGT\n+\nIIIIIIII\n@c\nAC\n+\nII\n";
    let mut worst = String::from("ok");
    for fail_at in 2..8 {
        let src = FailOnce { data, pos: 0, calls: 0, fail_at, chunk: 7 };
        let mut rdr = fastq::Reader::with_capacity(src, 20);
        let out = catch_unwind(AssertUnwindSafe(|| {
            let mut recs = vec![];
            let mut errs = 0;
            for _ in 0..20 {
                match rdr.next() {
                    None => break,
                    Some(Ok(r)) => recs.push(String::from_utf8_lossy(r.head()).to_string()),
                    Some(Err(_)) => { errs += 1; }
                }
            }
            (recs, errs)
        }));
        match out {
            Err(_) => { worst = format!("PANIC (fail_at={})", fail_at); }
            Ok((recs, _)) => {
                // every returned record must be a record of the input, in order
                let all = ["a", "b", "c"];
                let mut i = 0;
                for r in &recs { while i < 3 && all[i] != r { i += 1; } if i == 3 { worst = format!("FABRICATED/OUT-OF-ORDER {:?} (fail_at={})", recs, fail_at); break; } i += 1; }
            }
        }
    }
    println!("D7 next() after a transient I/O error: {}", worst);
    if worst != "ok" { bad += 1; }
    // FASTA counterpart of D6 (exact-count mode, buffer limit)
    let mut r = fasta::Reader::with_capacity(&b">a\nAC\n>b\nGT\n>cccccccccccccccccccccccccccccc\nACGTACGTACGTACGT\n"[..], 12)
        .set_policy(seq_io::policy::DoubleUntilLimited::new(16, 16));
    let mut set = fasta::RecordSet::default();
    let res = r.read_record_set_exact(&mut set, Some(3));
    println!("D6/fasta exact(3) hitting the buffer limit: is_err={} set.len()={}", matches!(res, Some(Err(_))), set.len());
    if matches!(res, Some(Err(_))) && set.len() != 0 { bad += 1; }
    std::process::exit(if bad == 0 { 0 } else { 1 });
}
