use seq_io::{fasta, fastq};
use seq_io::fastq::Record as _;
fn main() {
    // D1: SeqLines::len() goes stale after a step
    let mut r = fasta::Reader::new(&b">a\nAA\nCC\nGG\n"[..]);
    let rec = r.next().unwrap().unwrap();
    let mut it = rec.seq_lines();
    assert_eq!(it.len(), 3);
    it.next();
    let d1 = it.len() == 2 && it.size_hint() == (2, Some(2));
    println!("D1 len after one step = {} size_hint = {:?} -> {}", it.len(), it.size_hint(), if d1 { "ok" } else { "DEFECT" });
    // D4: CRLF FASTQ without final terminator
    let mut q = fastq::Reader::new(&b"@id\r\nACGT\r\n+\r\nIIII"[..]);
    let res = q.next().unwrap();
    let d4 = match &res { Ok(rec) => rec.seq() == b"ACGT" && rec.qual() == b"IIII", Err(_) => false };
    println!("D4 {:?} -> {}", res.as_ref().map(|r| r.to_owned_record()), if d4 { "ok" } else { "DEFECT" });
    // a genuinely unequal record is still rejected, CRLF or not
    let mut q = fastq::Reader::new(&b"@id\r\nACGT\r\n+\r\nIII"[..]);
    let e = q.next().unwrap();
    println!("unequal CRLF: {:?}", e.as_ref().err());
    assert!(matches!(e, Err(fastq::Error::UnequalLengths { seq: 4, qual: 3, .. })));
    assert!(d1 && d4);
}
