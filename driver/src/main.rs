// E1 — fact extractor: dumps the type-checked MIR of the crate under analysis as one JSON
// document (one write, one process).  Used as RUSTC_WORKSPACE_WRAPPER under
// `cargo +nightly check`; argv[1] is the real rustc path and is dropped.
//
// Only the crate named by SEQIO_FACTS_CRATE (default `seq_io`) is dumped; every other crate is
// compiled normally.  Output file: $SEQIO_FACTS_OUT (required).
#![feature(rustc_private)]
#![allow(clippy::all)]

extern crate rustc_abi;
extern crate rustc_driver;
extern crate rustc_hir;
extern crate rustc_interface;
extern crate rustc_middle;
extern crate rustc_session;
extern crate rustc_span;

use rustc_driver::Compilation;
use rustc_hir::def::DefKind;
use rustc_hir::def_id::DefId;
use rustc_middle::mir::{
    AggregateKind, BasicBlock, Body, Const, Operand, Place, PlaceElem, Rvalue, StatementKind,
    TerminatorKind, UnwindAction,
};
use rustc_middle::ty::print::with_no_trimmed_paths;
use rustc_middle::ty::{self, Instance, Ty, TyCtxt, TypingEnv};
use rustc_span::Span;
use std::fmt::Write as _;

mod json {
    pub fn esc(s: &str) -> String {
        let mut o = String::with_capacity(s.len() + 2);
        o.push('"');
        for c in s.chars() {
            match c {
                '"' => o.push_str("\\\""),
                '\\' => o.push_str("\\\\"),
                '\n' => o.push_str("\\n"),
                '\r' => o.push_str("\\r"),
                '\t' => o.push_str("\\t"),
                c if (c as u32) < 0x20 => o.push_str(&format!("\\u{:04x}", c as u32)),
                c => o.push(c),
            }
        }
        o.push('"');
        o
    }
    pub fn obj(fields: Vec<(&str, String)>) -> String {
        let mut o = String::from("{");
        for (i, (k, v)) in fields.iter().enumerate() {
            if i > 0 {
                o.push(',');
            }
            o.push_str(&esc(k));
            o.push(':');
            o.push_str(v);
        }
        o.push('}');
        o
    }
    pub fn arr(items: Vec<String>) -> String {
        let mut o = String::from("[");
        for (i, v) in items.iter().enumerate() {
            if i > 0 {
                o.push(',');
            }
            o.push_str(v);
        }
        o.push(']');
        o
    }
    pub fn opt(v: Option<String>) -> String {
        v.unwrap_or_else(|| "null".to_string())
    }
    pub fn b(v: bool) -> String {
        if v { "true".into() } else { "false".into() }
    }
}
use json::{arr, b, esc, obj, opt};

struct Cx<'tcx> {
    tcx: TyCtxt<'tcx>,
}

impl<'tcx> Cx<'tcx> {
    fn path(&self, d: DefId) -> String {
        with_no_trimmed_paths!(self.tcx.def_path_str(d))
    }
    fn ty_s(&self, t: Ty<'tcx>) -> String {
        with_no_trimmed_paths!(format!("{}", t))
    }
    fn span(&self, sp: Span) -> String {
        let sm = self.tcx.sess.source_map();
        let lo = sm.lookup_char_pos(sp.lo());
        let hi = sm.lookup_char_pos(sp.hi());
        let file = match &lo.file.name {
            rustc_span::FileName::Real(r) => match r.local_path() {
                Some(p) => p.to_string_lossy().to_string(),
                None => format!("{:?}", r),
            },
            other => format!("{:?}", other),
        };
        obj(vec![
            ("file", esc(&file)),
            ("lo", lo.line.to_string()),
            ("hi", hi.line.to_string()),
            ("exp", b(sp.from_expansion())),
        ])
    }
    fn line(&self, sp: Span) -> String {
        let sm = self.tcx.sess.source_map();
        // for macro-generated code report the line of the outermost call site too
        let lo = sm.lookup_char_pos(sp.lo());
        lo.line.to_string()
    }

    fn place(&self, body: &Body<'tcx>, p: &Place<'tcx>) -> String {
        let tcx = self.tcx;
        let mut projs = vec![];
        for (base, elem) in p.iter_projections() {
            let bty = base.ty(&body.local_decls, tcx);
            let s = match elem {
                PlaceElem::Deref => obj(vec![("k", esc("deref"))]),
                PlaceElem::Field(f, fty) => {
                    let mut name = f.index().to_string();
                    let mut owner = String::new();
                    match bty.ty.kind() {
                        ty::Adt(adt, _) => {
                            owner = self.path(adt.did());
                            let v = bty.variant_index.unwrap_or(rustc_abi::FIRST_VARIANT);
                            if adt.is_enum() && bty.variant_index.is_none() {
                                // field of an enum without downcast: should not happen
                            } else if let Some(fd) = adt.variant(v).fields.get(f) {
                                name = fd.name.to_string();
                            }
                            if adt.is_enum() {
                                owner = format!("{}::{}", owner, adt.variant(v).name);
                            }
                        }
                        ty::Closure(def, _) => {
                            owner = self.path(*def);
                            let names = tcx.closure_saved_names_of_captured_variables(*def);
                            if let Some(n) = names.get(f) {
                                name = n.to_string();
                            }
                        }
                        ty::Tuple(_) => {
                            owner = "tuple".into();
                        }
                        _ => {}
                    }
                    obj(vec![
                        ("k", esc("field")),
                        ("i", f.index().to_string()),
                        ("name", esc(&name)),
                        ("owner", esc(&owner)),
                        ("ty", esc(&self.ty_s(fty))),
                    ])
                }
                PlaceElem::Downcast(sym, v) => obj(vec![
                    ("k", esc("downcast")),
                    ("variant", esc(&sym.map(|s| s.to_string()).unwrap_or_default())),
                    ("vi", v.index().to_string()),
                ]),
                PlaceElem::Index(l) => {
                    obj(vec![("k", esc("index")), ("local", l.index().to_string())])
                }
                PlaceElem::ConstantIndex { offset, from_end, .. } => obj(vec![
                    ("k", esc("constindex")),
                    ("offset", offset.to_string()),
                    ("from_end", b(from_end)),
                ]),
                PlaceElem::Subslice { from, to, from_end } => obj(vec![
                    ("k", esc("subslice")),
                    ("from", from.to_string()),
                    ("to", to.to_string()),
                    ("from_end", b(from_end)),
                ]),
                other => obj(vec![("k", esc("other")), ("dbg", esc(&format!("{:?}", other)))]),
            };
            projs.push(s);
        }
        obj(vec![("l", p.local.index().to_string()), ("p", arr(projs))])
    }

    fn fn_def(&self, owner: DefId, t: Ty<'tcx>) -> Option<String> {
        let tcx = self.tcx;
        match *t.kind() {
            ty::FnDef(def_id, args) => {
                let mut f = vec![
                    ("path", esc(&self.path(def_id))),
                    (
                        "inst",
                        esc(&with_no_trimmed_paths!(tcx.def_path_str_with_args(def_id, args))),
                    ),
                    ("krate", esc(&tcx.crate_name(def_id.krate).to_string())),
                    ("local", b(def_id.is_local())),
                ];
                let targs: Vec<String> = args
                    .iter()
                    .filter_map(|a| a.as_type())
                    .map(|t| esc(&self.ty_s(t)))
                    .collect();
                f.push(("targs", arr(targs)));
                if matches!(tcx.def_kind(def_id), DefKind::AssocFn) {
                    if let Some(tr) = tcx.trait_of_assoc(def_id) {
                        f.push(("trait", esc(&self.path(tr))));
                        f.push(("name", esc(&tcx.item_name(def_id).to_string())));
                    } else {
                        f.push(("name", esc(&tcx.item_name(def_id).to_string())));
                    }
                } else if matches!(tcx.def_kind(def_id), DefKind::Fn) {
                    f.push(("name", esc(&tcx.item_name(def_id).to_string())));
                }
                let env = TypingEnv::post_analysis(tcx, owner);
                if let Ok(Some(inst)) = Instance::try_resolve(tcx, env, def_id, args) {
                    let rd = inst.def_id();
                    f.push(("resolved", esc(&self.path(rd))));
                    f.push(("resolved_local", b(rd.is_local())));
                    f.push(("resolved_kind", esc(&format!("{:?}", inst.def).split('(').next().unwrap_or("").to_string())));
                }
                Some(obj(f))
            }
            _ => None,
        }
    }

    fn constant(&self, owner: DefId, c: &rustc_middle::mir::ConstOperand<'tcx>) -> String {
        let tcx = self.tcx;
        let t = c.const_.ty();
        let mut f = vec![
            ("k", esc("const")),
            ("ty", esc(&self.ty_s(t))),
            ("s", esc(&with_no_trimmed_paths!(format!("{}", c.const_)))),
        ];
        if let Some(fd) = self.fn_def(owner, t) {
            f.push(("fn", fd));
        }
        if let ty::Closure(def, _) = t.kind() {
            f.push(("closure", esc(&self.path(*def))));
        }
        if let Const::Unevaluated(uv, _) = c.const_ {
            if let Some(p) = uv.promoted {
                f.push(("promoted", p.index().to_string()));
                f.push(("promoted_of", esc(&self.path(uv.def))));
            } else {
                f.push(("unevaluated", esc(&self.path(uv.def))));
            }
        }
        let env = TypingEnv::post_analysis(tcx, owner);
        if t.is_integral() || t.is_bool() || t.is_char() {
            if let Some(si) = c.const_.try_eval_scalar_int(tcx, env) {
                let size = si.size();
                let bits = si.to_bits(size);
                f.push(("int", esc(&bits.to_string())));
                if t.is_signed() {
                    let sv = size.sign_extend(bits) as i128;
                    f.push(("sint", esc(&sv.to_string())));
                }
            }
        }
        obj(f)
    }

    fn operand(&self, owner: DefId, body: &Body<'tcx>, o: &Operand<'tcx>) -> String {
        match o {
            Operand::Copy(p) => obj(vec![("k", esc("copy")), ("pl", self.place(body, p))]),
            Operand::Move(p) => obj(vec![("k", esc("move")), ("pl", self.place(body, p))]),
            Operand::Constant(c) => self.constant(owner, c),
            #[allow(unreachable_patterns)]
            other => obj(vec![("k", esc("otherop")), ("dbg", esc(&format!("{:?}", other)))]),
        }
    }

    fn rvalue(&self, owner: DefId, body: &Body<'tcx>, rv: &Rvalue<'tcx>) -> String {
        let tcx = self.tcx;
        match rv {
            Rvalue::Use(o, ..) => obj(vec![("k", esc("use")), ("op", self.operand(owner, body, o))]),
            Rvalue::Ref(_, bk, p) => obj(vec![
                ("k", esc("ref")),
                ("mut", b(matches!(bk, rustc_middle::mir::BorrowKind::Mut { .. }))),
                ("pl", self.place(body, p)),
            ]),
            Rvalue::RawPtr(_, p) => obj(vec![("k", esc("rawptr")), ("pl", self.place(body, p))]),
            Rvalue::BinaryOp(op, ab) => obj(vec![
                ("k", esc("bin")),
                ("op", esc(&format!("{:?}", op))),
                ("a", self.operand(owner, body, &ab.0)),
                ("b", self.operand(owner, body, &ab.1)),
            ]),
            Rvalue::UnaryOp(op, a) => obj(vec![
                ("k", esc("un")),
                ("op", esc(&format!("{:?}", op))),
                ("a", self.operand(owner, body, a)),
            ]),
            Rvalue::Cast(kind, o, t) => obj(vec![
                ("k", esc("cast")),
                ("kind", esc(&format!("{:?}", kind))),
                ("op", self.operand(owner, body, o)),
                ("ty", esc(&self.ty_s(*t))),
            ]),
            Rvalue::Discriminant(p) => {
                obj(vec![("k", esc("discr")), ("pl", self.place(body, p))])
            }
            Rvalue::CopyForDeref(p) => obj(vec![
                ("k", esc("use")),
                ("op", obj(vec![("k", esc("copy")), ("pl", self.place(body, p))])),
            ]),
            Rvalue::Repeat(o, _) => {
                obj(vec![("k", esc("repeat")), ("op", self.operand(owner, body, o))])
            }
            Rvalue::Aggregate(kind, ops) => {
                let mut f = vec![("k", esc("agg"))];
                match &**kind {
                    AggregateKind::Adt(did, vi, _, _, _) => {
                        let adt = tcx.adt_def(*did);
                        f.push(("agg", esc("adt")));
                        f.push(("adt", esc(&self.path(*did))));
                        f.push(("variant", esc(&adt.variant(*vi).name.to_string())));
                        f.push(("vi", vi.index().to_string()));
                        let names: Vec<String> = adt
                            .variant(*vi)
                            .fields
                            .iter()
                            .map(|fd| esc(&fd.name.to_string()))
                            .collect();
                        f.push(("fields", arr(names)));
                    }
                    AggregateKind::Tuple => f.push(("agg", esc("tuple"))),
                    AggregateKind::Array(_) => f.push(("agg", esc("array"))),
                    AggregateKind::Closure(did, _) => {
                        f.push(("agg", esc("closure")));
                        f.push(("closure", esc(&self.path(*did))));
                        let names: Vec<String> = tcx
                            .closure_saved_names_of_captured_variables(*did)
                            .iter()
                            .map(|n| esc(&n.to_string()))
                            .collect();
                        f.push(("fields", arr(names)));
                    }
                    other => {
                        f.push(("agg", esc("other")));
                        f.push(("dbg", esc(&format!("{:?}", other))));
                    }
                }
                let os: Vec<String> = ops.iter().map(|o| self.operand(owner, body, o)).collect();
                f.push(("ops", arr(os)));
                obj(f)
            }
            other => obj(vec![("k", esc("otherrv")), ("dbg", esc(&format!("{:?}", other)))]),
        }
    }

    fn bb(&self, t: BasicBlock) -> String {
        t.index().to_string()
    }

    fn body(&self, owner: DefId, body: &Body<'tcx>) -> String {
        let tcx = self.tcx;
        let mut locals = vec![];
        for (_l, d) in body.local_decls.iter_enumerated() {
            locals.push(obj(vec![("ty", esc(&self.ty_s(d.ty)))]));
        }
        let mut dbg = vec![];
        for v in &body.var_debug_info {
            let val = match &v.value {
                rustc_middle::mir::VarDebugInfoContents::Place(p) => self.place(body, p),
                rustc_middle::mir::VarDebugInfoContents::Const(c) => self.constant(owner, c),
            };
            dbg.push(obj(vec![
                ("name", esc(&v.name.to_string())),
                ("val", val),
                ("arg", opt(v.argument_index.map(|i| i.to_string()))),
            ]));
        }
        let mut blocks = vec![];
        for (_bbi, data) in body.basic_blocks.iter_enumerated() {
            let mut stmts = vec![];
            for st in &data.statements {
                let line = self.line(st.source_info.span);
                match &st.kind {
                    StatementKind::Assign(pr) => {
                        let (p, rv) = &**pr;
                        stmts.push(obj(vec![
                            ("k", esc("assign")),
                            ("pl", self.place(body, p)),
                            ("rv", self.rvalue(owner, body, rv)),
                            ("line", line),
                            ("exp", b(st.source_info.span.from_expansion())),
                        ]));
                    }
                    StatementKind::SetDiscriminant { place, variant_index } => {
                        stmts.push(obj(vec![
                            ("k", esc("setdiscr")),
                            ("pl", self.place(body, place)),
                            ("vi", variant_index.index().to_string()),
                            ("line", line),
                        ]));
                    }
                    StatementKind::StorageLive(_)
                    | StatementKind::StorageDead(_)
                    | StatementKind::Nop
                    | StatementKind::FakeRead(..)
                    | StatementKind::AscribeUserType(..)
                    | StatementKind::Coverage(..)
                    | StatementKind::ConstEvalCounter
                    | StatementKind::PlaceMention(..)
                    | StatementKind::BackwardIncompatibleDropHint { .. } => {}
                    other => {
                        stmts.push(obj(vec![
                            ("k", esc("otherstmt")),
                            ("dbg", esc(&format!("{:?}", other))),
                            ("line", line),
                        ]));
                    }
                }
            }
            let term = data.terminator();
            let line = self.line(term.source_info.span);
            let exp = b(term.source_info.span.from_expansion());
            let unwind_s = |u: &UnwindAction| -> String {
                match u {
                    UnwindAction::Cleanup(bb) => bb.index().to_string(),
                    _ => "null".to_string(),
                }
            };
            let t = match &term.kind {
                TerminatorKind::Goto { target } => {
                    obj(vec![("k", esc("goto")), ("target", self.bb(*target)), ("line", line)])
                }
                TerminatorKind::SwitchInt { discr, targets } => {
                    let mut ts = vec![];
                    for (v, bbx) in targets.iter() {
                        ts.push(arr(vec![esc(&v.to_string()), self.bb(bbx)]));
                    }
                    obj(vec![
                        ("k", esc("switch")),
                        ("discr", self.operand(owner, body, discr)),
                        ("targets", arr(ts)),
                        ("otherwise", self.bb(targets.otherwise())),
                        ("line", line),
                        ("exp", exp),
                    ])
                }
                TerminatorKind::Return => obj(vec![("k", esc("return")), ("line", line)]),
                TerminatorKind::Unreachable => obj(vec![("k", esc("unreachable"))]),
                TerminatorKind::UnwindResume => obj(vec![("k", esc("resume"))]),
                TerminatorKind::UnwindTerminate(_) => obj(vec![("k", esc("terminate"))]),
                TerminatorKind::Drop { place, target, unwind, .. } => obj(vec![
                    ("k", esc("drop")),
                    ("pl", self.place(body, place)),
                    ("target", self.bb(*target)),
                    ("unwind", unwind_s(unwind)),
                    ("line", line),
                    ("exp", exp),
                ]),
                TerminatorKind::Call { func, args, destination, target, unwind, .. } => {
                    let fty = func.ty(&body.local_decls, tcx);
                    let mut f = vec![
                        ("k", esc("call")),
                        ("func", self.operand(owner, body, func)),
                        (
                            "args",
                            arr(args.iter().map(|a| self.operand(owner, body, &a.node)).collect()),
                        ),
                        ("dest", self.place(body, destination)),
                        ("target", opt(target.map(|t| self.bb(t)))),
                        ("unwind", unwind_s(unwind)),
                        ("line", line),
                        ("exp", exp),
                    ];
                    if let Some(fd) = self.fn_def(owner, fty) {
                        f.push(("callee", fd));
                    }
                    obj(f)
                }
                TerminatorKind::TailCall { func, args, .. } => obj(vec![
                    ("k", esc("tailcall")),
                    ("func", self.operand(owner, body, func)),
                    (
                        "args",
                        arr(args.iter().map(|a| self.operand(owner, body, &a.node)).collect()),
                    ),
                    ("line", line),
                ]),
                TerminatorKind::Assert { cond, expected, target, msg, unwind } => obj(vec![
                    ("k", esc("assert")),
                    ("cond", self.operand(owner, body, cond)),
                    ("expected", b(*expected)),
                    ("target", self.bb(*target)),
                    ("unwind", unwind_s(unwind)),
                    ("msg", esc(&format!("{:?}", msg).chars().take(60).collect::<String>())),
                    ("line", line),
                ]),
                TerminatorKind::FalseEdge { real_target, .. } => obj(vec![
                    ("k", esc("goto")),
                    ("target", self.bb(*real_target)),
                    ("line", line),
                ]),
                TerminatorKind::FalseUnwind { real_target, .. } => obj(vec![
                    ("k", esc("goto")),
                    ("target", self.bb(*real_target)),
                    ("line", line),
                ]),
                other => obj(vec![
                    ("k", esc("otherterm")),
                    ("dbg", esc(&format!("{:?}", other).chars().take(200).collect::<String>())),
                    ("line", line),
                ]),
            };
            blocks.push(obj(vec![
                ("cleanup", b(data.is_cleanup)),
                ("stmts", arr(stmts)),
                ("term", t),
            ]));
        }
        obj(vec![
            ("arg_count", body.arg_count.to_string()),
            ("locals", arr(locals)),
            ("dbg", arr(dbg)),
            ("blocks", arr(blocks)),
            ("span", self.span(body.span)),
        ])
    }
}

struct Cb;

impl rustc_driver::Callbacks for Cb {
    fn after_analysis<'tcx>(
        &mut self,
        _compiler: &rustc_interface::interface::Compiler,
        tcx: TyCtxt<'tcx>,
    ) -> Compilation {
        let want = std::env::var("SEQIO_FACTS_CRATE").unwrap_or_else(|_| "seq_io".to_string());
        let krate = tcx.crate_name(rustc_hir::def_id::LOCAL_CRATE).to_string();
        if krate != want {
            return Compilation::Continue;
        }
        // only the library target (crate type rlib/lib), never tests / build scripts
        let out = match std::env::var("SEQIO_FACTS_OUT") {
            Ok(o) => o,
            Err(_) => return Compilation::Continue,
        };
        let is_test = tcx.sess.opts.test;
        let cx = Cx { tcx };
        let mut bodies = vec![];
        let mut n = 0usize;
        for ldid in tcx.hir_body_owners() {
            let did = ldid.to_def_id();
            let kind = tcx.def_kind(did);
            if !matches!(kind, DefKind::Fn | DefKind::AssocFn | DefKind::Closure) {
                continue;
            }
            let body = tcx.optimized_mir(did);
            n += 1;
            let mut f = vec![
                ("path", esc(&cx.path(did))),
                ("kind", esc(&format!("{:?}", kind))),
                ("body", cx.body(did, body)),
            ];
            if matches!(kind, DefKind::Closure) {
                let parent = tcx.typeck_root_def_id(did);
                f.push(("root", esc(&cx.path(parent))));
                f.push(("parent", esc(&cx.path(tcx.parent(did)))));
            }
            if matches!(kind, DefKind::Fn | DefKind::AssocFn) {
                f.push(("vis", esc(&format!("{:?}", tcx.visibility(did)))));
                let sig = tcx.fn_sig(did).instantiate_identity().skip_binder();
                let ins: Vec<String> = sig.inputs().iter().map(|t| esc(&cx.ty_s(*t))).collect();
                f.push(("inputs", arr(ins)));
                f.push(("output", esc(&cx.ty_s(sig.output()))));
            }
            if matches!(kind, DefKind::AssocFn) {
                f.push(("name", esc(&tcx.item_name(did).to_string())));
                let parent = tcx.parent(did);
                match tcx.def_kind(parent) {
                    DefKind::Impl { of_trait } => {
                        let self_ty = tcx.type_of(parent).instantiate_identity().skip_normalization();
                        f.push(("impl_self", esc(&cx.ty_s(self_ty))));
                        if of_trait {
                            let tr = tcx.impl_trait_ref(parent).instantiate_identity().skip_normalization();
                            f.push(("impl_trait", esc(&cx.path(tr.def_id))));
                        }
                    }
                    DefKind::Trait => {
                        f.push(("in_trait", esc(&cx.path(parent))));
                    }
                    _ => {}
                }
            }
            // promoted bodies
            let proms = tcx.promoted_mir(did);
            let mut ps = vec![];
            for pb in proms.iter() {
                ps.push(cx.body(did, pb));
            }
            f.push(("promoted", arr(ps)));
            bodies.push(obj(f));
        }
        // ADTs
        let mut adts = vec![];
        for ldid in tcx.hir_crate_items(()).definitions() {
            let did = ldid.to_def_id();
            if !matches!(tcx.def_kind(did), DefKind::Struct | DefKind::Enum) {
                continue;
            }
            let adt = tcx.adt_def(did);
            let mut vars = vec![];
            for v in adt.variants().iter() {
                let mut fs = vec![];
                for fd in v.fields.iter() {
                    let fty = tcx.type_of(fd.did).instantiate_identity().skip_normalization();
                    fs.push(obj(vec![
                        ("name", esc(&fd.name.to_string())),
                        ("ty", esc(&cx.ty_s(fty))),
                        ("vis", esc(&format!("{:?}", fd.vis))),
                    ]));
                }
                vars.push(obj(vec![("name", esc(&v.name.to_string())), ("fields", arr(fs))]));
            }
            adts.push(obj(vec![
                ("path", esc(&cx.path(did))),
                ("kind", esc(if adt.is_enum() { "enum" } else { "struct" })),
                ("vis", esc(&format!("{:?}", tcx.visibility(did)))),
                ("variants", arr(vars)),
                ("span", cx.span(tcx.def_span(did))),
            ]));
        }
        // trait impls of the crate
        let mut impls = vec![];
        for ldid in tcx.hir_crate_items(()).definitions() {
            let did = ldid.to_def_id();
            if let DefKind::Impl { of_trait } = tcx.def_kind(did) {
                let self_ty = tcx.type_of(did).instantiate_identity().skip_normalization();
                let mut f = vec![("self", esc(&cx.ty_s(self_ty)))];
                if of_trait {
                    let tr = tcx.impl_trait_ref(did).instantiate_identity().skip_normalization();
                    f.push(("trait", esc(&cx.path(tr.def_id))));
                }
                let items: Vec<String> = tcx
                    .associated_items(did)
                    .in_definition_order()
                    .map(|it| esc(&it.name().to_string()))
                    .collect();
                f.push(("items", arr(items)));
                f.push(("span", cx.span(tcx.def_span(did))));
                impls.push(obj(f));
            }
        }
        let mut doc = String::new();
        let _ = write!(
            doc,
            "{}",
            obj(vec![
                ("crate", esc(&krate)),
                ("is_test", b(is_test)),
                ("n_bodies", n.to_string()),
                ("bodies", arr(bodies)),
                ("adts", arr(adts)),
                ("impls", arr(impls)),
            ])
        );
        std::fs::write(&out, doc).expect("cannot write facts");
        Compilation::Continue
    }
}

fn main() {
    let mut args: Vec<String> = std::env::args().collect();
    // RUSTC_WORKSPACE_WRAPPER: argv[1] is the path of the real rustc
    if args.len() > 1 && (args[1].ends_with("rustc") || args[1].contains("/rustc")) {
        args.remove(1);
    }
    let mut cb = Cb;
    rustc_driver::run_compiler(&args, &mut cb);
}
