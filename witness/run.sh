#!/bin/bash
# usage: run.sh <repo_dir> [filter]   — builds the witness doctests against <repo_dir>
set -u
REPO="${1:-/repo}"; FILTER="${2:-}"
HERE="$(cd "$(dirname "$0")" && pwd)"
W="$(mktemp -d /tmp/seqio-witness.XXXXXX)"
trap 'rm -rf "$W"' EXIT
mkdir -p "$W/src"
cp "$HERE/src/lib.rs" "$W/src/lib.rs"
sed "s#@REPO@#$REPO#" "$HERE/Cargo.toml.in" > "$W/Cargo.toml"
cp "$REPO/Cargo.lock" "$W/Cargo.lock"
cd "$W"
CARGO_NET_OFFLINE=true CARGO_TARGET_DIR="$HERE/../.cache/witness-target" cargo +nightly test --doc --offline $FILTER 2>&1
