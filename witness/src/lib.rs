//! E8 — type-level witnesses.  Every `compile_fail,E0xxx` example has a compiling twin that
//! differs only by the offending line; twins are `no_run`: nothing of seq_io is ever executed.
//! Run with `cargo +nightly test --doc` (error codes are only honoured on nightly).

/// W1 (C18, C13): a borrowed FASTA record keeps the reader mutably borrowed — it is a view into
/// the reader's buffer, not a copy.
/// ```compile_fail,E0499
/// use seq_io::fasta::{Reader, Record};
/// let mut r = Reader::new(&b">a\nA\n>b\nC\n"[..]);
/// let first = r.next().unwrap().unwrap();
/// let second = r.next().unwrap().unwrap(); // second mutable borrow while `first` is alive
/// let _ = (first.head(), second.head());
/// ```
/// twin:
/// ```no_run
/// use seq_io::fasta::{Reader, Record};
/// let mut r = Reader::new(&b">a\nA\n>b\nC\n"[..]);
/// let first = r.next().unwrap().unwrap();
/// let _ = first.head();
/// let second = r.next().unwrap().unwrap();
/// let _ = second.head();
/// ```
pub struct W1Fasta;

/// W1 (C18, C13): same for FASTQ.
/// ```compile_fail,E0499
/// use seq_io::fastq::{Reader, Record};
/// let mut r = Reader::new(&b"@a\nA\n+\nI\n@b\nC\n+\nI\n"[..]);
/// let first = r.next().unwrap().unwrap();
/// let second = r.next().unwrap().unwrap();
/// let _ = (first.head(), second.head());
/// ```
/// twin:
/// ```no_run
/// use seq_io::fastq::{Reader, Record};
/// let mut r = Reader::new(&b"@a\nA\n+\nI\n@b\nC\n+\nI\n"[..]);
/// let first = r.next().unwrap().unwrap();
/// let _ = first.head();
/// let second = r.next().unwrap().unwrap();
/// let _ = second.head();
/// ```
pub struct W1Fastq;

/// W2 (C18, C04, C13): a record taken from a record set borrows the set: the set cannot be
/// refilled while one of its records is alive, and the record type is the same `RefRecord`.
/// ```compile_fail,E0502
/// use seq_io::fasta::{Reader, Record, RecordSet, RefRecord};
/// let mut r = Reader::new(&b">a\nA\n>b\nC\n"[..]);
/// let mut set = RecordSet::default();
/// r.read_record_set(&mut set);
/// let rec: RefRecord = (&set).into_iter().next().unwrap();
/// r.read_record_set(&mut set); // mutable borrow of the set while `rec` borrows it
/// let _ = rec.head();
/// ```
/// twin:
/// ```no_run
/// use seq_io::fasta::{Reader, Record, RecordSet, RefRecord};
/// let mut r = Reader::new(&b">a\nA\n>b\nC\n"[..]);
/// let mut set = RecordSet::default();
/// r.read_record_set(&mut set);
/// let rec: RefRecord = (&set).into_iter().next().unwrap();
/// let _ = rec.head();
/// r.read_record_set(&mut set);
/// ```
pub struct W2Fasta;

/// W2 for FASTQ.
/// ```compile_fail,E0502
/// use seq_io::fastq::{Reader, Record, RecordSet, RefRecord};
/// let mut r = Reader::new(&b"@a\nA\n+\nI\n"[..]);
/// let mut set = RecordSet::default();
/// r.read_record_set(&mut set);
/// let rec: RefRecord = (&set).into_iter().next().unwrap();
/// r.read_record_set(&mut set);
/// let _ = rec.head();
/// ```
/// twin:
/// ```no_run
/// use seq_io::fastq::{Reader, Record, RecordSet, RefRecord};
/// let mut r = Reader::new(&b"@a\nA\n+\nI\n"[..]);
/// let mut set = RecordSet::default();
/// r.read_record_set(&mut set);
/// let rec: RefRecord = (&set).into_iter().next().unwrap();
/// let _ = rec.head();
/// r.read_record_set(&mut set);
/// ```
pub struct W2Fastq;

/// W3 (C07, C16): the generic parallel machinery accepts a data-set type that is `Send` and
/// `Default` but NOT `Clone`/`Copy` — so it cannot duplicate a data set; a set is a linear resource.
/// ```no_run
/// use seq_io::parallel::{read_parallel, Reader};
/// #[derive(Default)]
/// struct Set(Vec<u8>);            // deliberately not Clone
/// struct Src(u32);
/// impl Reader for Src {
///     type DataSet = Set;
///     type Err = ();
///     fn fill_data(&mut self, s: &mut Set) -> Option<Result<(), ()>> {
///         if self.0 == 0 { return None; }
///         self.0 -= 1; s.0.push(1); Some(Ok(()))
///     }
/// }
/// read_parallel(Src(3), 2, 2, |s: &mut Set| s.0.len(), |sets| { while let Some(r) = sets.next() { let _ = r; } });
/// ```
/// and the same program with a requirement the machinery does not have is rejected, which shows
/// that the bound above is really the only one used (a `Clone` bound would be satisfied trivially
/// by the record sets of the crate):
/// ```compile_fail,E0277
/// fn needs_clone<T: Clone>(_: &T) {}
/// #[derive(Default)]
/// struct Set(Vec<u8>);
/// needs_clone(&Set::default());
/// ```
pub struct W3;

/// W4 (C08): the channel endpoints of `ParallelRecordsets` are private: a consumer cannot keep a
/// sender/receiver alive beyond its own return (it only gets `&mut ParallelRecordsets`).
/// ```compile_fail,E0616
/// use seq_io::parallel::read_parallel;
/// use seq_io::fastq::Reader;
/// let reader = Reader::new(&b"@a\nA\n+\nI\n"[..]);
/// read_parallel(reader, 1, 1, |_set| (), |sets| {
///     let _leak = sets.empty_send.clone(); // private field
/// });
/// ```
/// twin:
/// ```no_run
/// use seq_io::parallel::read_parallel;
/// use seq_io::fastq::Reader;
/// let reader = Reader::new(&b"@a\nA\n+\nI\n"[..]);
/// read_parallel(reader, 1, 1, |_set| (), |sets| {
///     let _ = sets.next();
/// });
/// ```
pub struct W4;

/// W5a (C20): the line iterator implements the three iterator traits it promises.
/// ```no_run
/// fn exact<I: Iterator + DoubleEndedIterator + ExactSizeIterator>(_: &I) {}
/// use seq_io::fasta::Reader;
/// let mut r = Reader::new(&b">a\nA\nC\n"[..]);
/// let rec = r.next().unwrap().unwrap();
/// exact(&rec.seq_lines());
/// ```
/// W5b (C19): owned records and record sets are serialisable and deserialisable; owned records
/// are comparable and clonable.
/// ```no_run
/// fn serde_ok<T: serde::Serialize + serde::de::DeserializeOwned>() {}
/// fn eq_clone<T: PartialEq + Clone>() {}
/// serde_ok::<seq_io::fasta::OwnedRecord>();
/// serde_ok::<seq_io::fastq::OwnedRecord>();
/// serde_ok::<seq_io::fasta::RecordSet>();
/// serde_ok::<seq_io::fastq::RecordSet>();
/// eq_clone::<seq_io::fasta::OwnedRecord>();
/// eq_clone::<seq_io::fastq::OwnedRecord>();
/// ```
/// W5c (C14): both error types wrap io::Error by `From`, are std errors and `Send`.
/// ```no_run
/// fn err_ok<E: From<std::io::Error> + std::error::Error + Send + 'static>() {}
/// err_ok::<seq_io::fasta::Error>();
/// err_ok::<seq_io::fastq::Error>();
/// ```
/// W5d (C09): a user-defined recording policy is accepted by `set_policy` and visible again
/// through `policy()`.
/// ```no_run
/// use seq_io::policy::BufPolicy;
/// struct Rec(Vec<usize>);
/// impl BufPolicy for Rec {
///     fn grow_to(&mut self, cur: usize) -> Option<usize> { self.0.push(cur); Some(cur + 1) }
/// }
/// let r = seq_io::fasta::Reader::new(&b">a\nA\n"[..]).set_policy(Rec(vec![]));
/// let _: &Rec = r.policy();
/// let q = seq_io::fastq::Reader::new(&b"@a\nA\n+\nI\n"[..]).set_policy(Rec(vec![]));
/// let _: &Rec = q.policy();
/// ```
pub struct W5;

/// W6 (C05, interface only): `seek` exists only for seekable sources.
/// ```compile_fail,E0599
/// use seq_io::fasta::{Reader, Position};
/// struct NoSeek;
/// impl std::io::Read for NoSeek { fn read(&mut self, _: &mut [u8]) -> std::io::Result<usize> { Ok(0) } }
/// let mut r = Reader::new(NoSeek);
/// r.seek(&Position::new(1, 0));
/// ```
/// twin:
/// ```no_run
/// use seq_io::fasta::{Reader, Position};
/// let mut r = Reader::new(std::io::Cursor::new(&b">a\nA\n"[..]));
/// r.seek(&Position::new(1, 0)).unwrap();
/// ```
pub struct W6;
