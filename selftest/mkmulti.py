#!/usr/bin/env python3
"""mkmulti.py <name> [--benign PIDS | --expect "PID regex"]... --what TEXT -- <python expr transforming dict path->text>
Builds a multi-file patch by applying sed-like replacements given as triples file:::old:::new (exact strings; `re:` prefix for regex)."""
import difflib, os, re, sys
HERE = os.path.dirname(os.path.abspath(__file__))
a = sys.argv[1:]
name = a[0]; exp = []; ben = ''; what = ''; edits = []
i = 1
while i < len(a):
    if a[i] == '--expect': exp.append(a[i+1]); i += 2
    elif a[i] == '--benign': ben = a[i+1]; i += 2
    elif a[i] == '--what': what = a[i+1]; i += 2
    elif a[i] == '--edit': edits.append(a[i+1].split(':::')); i += 2
    else: i += 1
files = {}
for f, old, new in edits:
    fs = [f] if f != '*' else ['src/fasta.rs', 'src/fastq.rs', 'src/lib.rs', 'src/parallel.rs']
    for ff in fs:
        files.setdefault(ff, open(os.path.join('/repo', ff)).read())
        if old.startswith('re:'):
            files[ff] = re.sub(old[3:], new, files[ff])
        else:
            if f != '*':
                assert files[ff].count(old) >= 1, (ff, old)
            files[ff] = files[ff].replace(old, new)
diff = ''
for ff, dst in files.items():
    src = open(os.path.join('/repo', ff)).read()
    diff += ''.join(difflib.unified_diff(src.splitlines(True), dst.splitlines(True), 'a/' + ff, 'b/' + ff))
assert diff
out = os.path.join(HERE, 'benign' if ben and not exp else '', name + '.patch')
with open(out, 'w') as fh:
    fh.write('# what: %s\n' % what)
    for e in exp: fh.write('# expect: %s\n' % e)
    if ben: fh.write('# benign: %s\n' % ben)
    fh.write(diff)
print('wrote', out)
