#!/usr/bin/env python3
"""Mutation survey (checker validation, not a registered check).

  survey.py gen                  token-level mutants of /repo/src/*.rs        -> /tmp/survey/mutants.jsonl
  survey.py suite [--jobs N]     run the pinned integration tests on each     -> /tmp/survey/suite.jsonl
  survey.py checks [--jobs N]    run all rule groups on the suite survivors   -> selftest/survey/results.jsonl
  survey.py report

Everything happens in scratch copies under /tmp/survey (removed by `survey.py clean`); /repo is only read.
Survivors of the test suite that no check reports are either equivalent mutants or misses of the
checks: they are triaged by hand in selftest/survey/triage.md."""
import json, os, re, shutil, subprocess, sys, time
from concurrent.futures import ThreadPoolExecutor
HERE = os.path.dirname(os.path.abspath(__file__))
ROOT = os.path.dirname(HERE)
W = os.environ.get('SURVEY_DIR', '/tmp/survey')
REPO = os.environ.get('SURVEY_REPO', '/repo')     # the tree that is mutated (default: /repo; a scratch copy with refactorings applied for the 'recall on refactored code' run)
FILES = ['src/fasta.rs', 'src/fastq.rs', 'src/lib.rs', 'src/parallel.rs', 'src/policy.rs']

OPS = [
    (r' <= ', ' < '), (r' >= ', ' > '), (r' < ', ' <= '), (r' > ', ' >= '), (r' == ', ' != '), (r' != ', ' == '),
    (r' < ', ' > '), (r' > ', ' < '),
    (r' \+ 1\b', ''), (r' - 1\b', ''), (r' \+ 1\b', ' + 2'), (r' - 1\b', ' - 2'), (r' \+ 1\b', ' - 1'), (r' - 1\b', ' + 1'),
    (r' \+ (?!1\b)', ' - '), (r' - (?!1\b)', ' + '), (r' \+= ', ' -= '), (r' -= ', ' += '),
    (r'\btrue\b', 'false'), (r'\bfalse\b', 'true'), (r' && ', ' || '), (r' \|\| ', ' && '),
    (r'\bif !', 'if '), (r'\bwhile !', 'while '),
    (r'(?<![\w.])0(?![\w.])', '1'), (r'(?<![\w.])1(?![\w.])', '0'), (r'(?<![\w.])1(?![\w.])', '2'), (r'(?<![\w.])2(?![\w.])', '3'), (r'(?<![\w.])3(?![\w.])', '2'),
    (r'\.0\b(?!\.)', '.1'), (r'\.1\b(?!\.)', '.0'),
    (r'\.is_none\(\)', '.is_some()'), (r'\.is_some\(\)', '.is_none()'),
    (r'\bbreak;', 'continue;'), (r'\bcontinue;', 'break;'),
    (r'self\.buf_pos\.start\b', 'self.search_pos'), (r'self\.search_pos\b', 'self.buf_pos.start'),
    (r'\.seq\b(?!_)', '.sep'), (r'\.sep\b', '.qual'), (r'\.qual\b(?!_)', '.sep'), (r'\.sep\b', '.seq'),
    (r'State::Parsing\b', 'State::Finished'), (r'State::Finished\b', 'State::Parsing'), (r'State::New\b', 'State::Parsing'),
    (r'State::Positioned\b', 'State::Parsing'), (r'State::Incomplete\b', 'State::Parsing'),
    (r'RecordPos::Head\b', 'RecordPos::Seq'), (r'RecordPos::Seq\b', 'RecordPos::Sep'), (r'RecordPos::Sep\b', 'RecordPos::Qual'), (r'RecordPos::Qual\b', 'RecordPos::Sep'),
    (r'\.is_empty\(\)', '.len() == 1'),
    (r'\bSome\(Ok\(\(\)\)\)', 'None'),
]
OPS2 = [
    (r' <= ', ' == '), (r' >= ', ' == '),
    (r'\.min\(', '.max('), (r'\.max\(', '.min('),
    (r'\.len\(\)(?! [-+] 1)', '.len() + 1'), (r'\.len\(\)(?! [-+] 1)', '.len() - 1'),
    (r'\.first\(\)', '.last()'), (r'\.last\(\)', '.first()'),
    (r'\.next\(\)', '.next_back()'), (r'\.next_back\(\)', '.next()'),
    (r'\bSome\(n\)', 'Some(n + 1)'),
    (r'\.is_err\(\)', '.is_ok()'), (r'\.is_ok\(\)', '.is_err()'),
    (r'\.ok_or\(', '.ok_or_else(|| '),   # usually a compile error; harmless
    (r'\.take\(\)', '.clone()'),
    (r'\.capacity\(\)', '.buffer().len()'), (r'\.buffer\(\)\.len\(\)', '.capacity()'),
    (r'get_buf\(\)\.len\(\)', 'buf_reader.capacity()'),
    (r'\.position\.line\b', '.position.byte'), (r'\.position\.byte\b', '.position.line'),
    (r'\bn_threads\b', 'queue_len'), (r'\bqueue_len\b', 'n_threads'),
    (r'\bempty_send\b', 'done_send'), (r'\bdone_send\b', 'empty_send'),
    (r'\bempty_recv\b', 'done_recv'), (r'\bdone_recv\b', 'empty_recv'),
    (r'\btrim_cr\(([^()]*)\)', r'\1'),
    (r"b'\\n'", "b'\\r'"), (r"b'\\r'", "b'\\n'"), (r"b' '", "b'\\t'"), (r"b'>'", "b'@'"), (r"b'@'", "b'>'"), (r"b'\+'", "b'-'"),
    (r'\bpos\.0\b', 'pos.1'),
    (r'\bseq_pos\b', 'positions'),
    (r'\.skip\(1\)', ''), (r'\.skip\(1\)', '.skip(2)'),
    (r'\.nth\(1\)', '.nth(0)'), (r'splitn\(2,', 'splitn(3,'),
    (r'\.chunks\(', '.rchunks('),
    (r'\* 2\b', '* 3'), (r'<< 23', '<< 22'),
]
NEGATE = re.compile(r'^(\s*)(\} else )?(if|while) (?!let )(.*) \{\s*$')
DROPERR = re.compile(r'^(\s*)([^=]*[\w)\]])\?;\s*$')
DELETE2 = re.compile(r'^\s*(?!let |return|break|continue|self\.|rset\.|record_set\.|buf_pos\.|bp\.)[a-z_][\w.]*(\(.*\)|\.[\w.]+\(.*\))(\.ok\(\))?;\s*$')
ANDDROP = re.compile(r'(?<= )([^&|(){}]+?) && ')
DELETE = re.compile(r'^\s*(self|rset|record_set|buf_pos|bp)\.[\w.]+(\(.*\)| [-+]?= .*);\s*$')


def code_part(line):
    """(code, comment-start) : strip // comments (not inside string literals, roughly)"""
    i = line.find('//')
    while i >= 0 and line[:i].count('"') % 2 == 1:
        i = line.find('//', i + 2)
    return line if i < 0 else line[:i]


def gen(extra=False):
    os.makedirs(W, exist_ok=True)
    out = []
    for f in FILES:
        lines = open(os.path.join(REPO, f)).read().split('\n')
        in_test = False
        for n, line in enumerate(lines):
            s = line.strip()
            if s.startswith('#[cfg(test)]') or s.startswith('mod tests'):
                in_test = True
            if in_test or s.startswith('//') or s.startswith('#[') or s.startswith('#!') or not s:
                continue
            if re.match(r'^(pub |use |impl|where|fn |struct |enum |trait |type |macro_rules|extern |mod )', s) or 'fn ' in s.split('(')[0] and s.endswith('{'):
                continue
            code = code_part(line)
            for rx, new in OPS:
                for m in re.finditer(rx, code):
                    # skip string / byte-string literals
                    if code[:m.start()].count('"') % 2 == 1:
                        continue
                    mut = code[:m.start()] + new + code[m.end():] + line[len(code):]
                    out.append({'file': f, 'line': n + 1, 'old': m.group(0), 'new': new, 'text': mut, 'orig': line})
            if DELETE.match(code):
                out.append({'file': f, 'line': n + 1, 'old': s, 'new': '<deleted>', 'text': '', 'orig': line})
            if extra:
                for rx, new in OPS2:
                    for m in re.finditer(rx, code):
                        if code[:m.start()].count('"') % 2 == 1:
                            continue
                        rep = m.expand(new) if '\\1' in new else new
                        mut = code[:m.start()] + rep + code[m.end():] + line[len(code):]
                        out.append({'file': f, 'line': n + 1, 'old': m.group(0), 'new': rep, 'text': mut, 'orig': line})
                m = NEGATE.match(code)
                if m:
                    out.append({'file': f, 'line': n + 1, 'old': m.group(4), 'new': '!(' + m.group(4) + ')', 'orig': line,
                                'text': '%s%s%s !(%s) {' % (m.group(1), m.group(2) or '', m.group(3), m.group(4))})
                m = DROPERR.match(code)
                if m and 'let ' not in m.group(2):
                    out.append({'file': f, 'line': n + 1, 'old': '?;', 'new': '<error dropped>', 'orig': line,
                                'text': '%slet _ = %s;' % (m.group(1), m.group(2).strip())})
                if DELETE2.match(code):
                    out.append({'file': f, 'line': n + 1, 'old': s, 'new': '<deleted>', 'text': '', 'orig': line})
                for m in ANDDROP.finditer(code):
                    if re.match(r'^\s*(\} else )?(if|while) ', code) and code[:m.start()].count('"') % 2 == 0:
                        out.append({'file': f, 'line': n + 1, 'old': m.group(0), 'new': '<conjunct dropped>', 'orig': line,
                                    'text': code[:m.start()] + code[m.end():] + line[len(code):]})
    seen = set()
    uniq = []
    base = 0
    if extra:
        # only mutants the first survey did not contain; ids continue after it
        for l in open(os.path.join(HERE, 'survey', 'mutants.v1.jsonl')):
            m0 = json.loads(l)
            seen.add((m0['file'], m0['line'], m0['text']))
            base = max(base, m0['id'] + 1)
    for m in out:
        k = (m['file'], m['line'], m['text'])
        if k in seen or m['text'] == m['orig']:
            continue
        seen.add(k)
        m['id'] = base + len(uniq)
        uniq.append(m)
    with open(os.path.join(W, 'mutants.jsonl'), 'w') as fh:
        for m in uniq:
            fh.write(json.dumps(m) + '\n')
    print('%d mutants' % len(uniq))


def load(name):
    p = os.path.join(W, name)
    return [json.loads(l) for l in open(p)] if os.path.exists(p) else []


def worker_dir(i, build=True):
    d = os.path.join(W, 'w%d' % i)
    if not os.path.exists(d):
        os.makedirs(d)
        subprocess.run(['rsync', '-a', '--exclude', 'target', '--exclude', '.git', REPO + '/', d + '/'], check=True)
        src = os.path.join(W, 'w0', 'target')
        if i != 0 and os.path.exists(src):
            subprocess.run(['cp', '-r', src, os.path.join(d, 'target')], check=True)
    return d


def apply(d, m):
    p = os.path.join(d, m['file'])
    lines = open(os.path.join(REPO, m['file'])).read().split('\n')
    assert lines[m['line'] - 1] == m['orig']
    lines[m['line'] - 1] = m['text']
    with open(p, 'w') as fh:
        fh.write('\n'.join(lines))


def restore(d, m):
    shutil.copyfile(os.path.join(REPO, m['file']), os.path.join(d, m['file']))


def suite_one(args):
    i, ms = args
    d = worker_dir(i)
    env = dict(os.environ, CARGO_NET_OFFLINE='true', RUSTFLAGS='-Awarnings')
    res = []
    for m in ms:
        apply(d, m)
        try:
            r = subprocess.run(['timeout', '-s', 'KILL', '120', 'cargo', 'test', '--offline', '--test', 'fasta', '--test', 'fastq', '--no-fail-fast'],
                               cwd=d, env=env, stdout=subprocess.PIPE, stderr=subprocess.STDOUT, text=True)
            o = r.stdout
            if r.returncode == 0:
                st = 'SUITE_PASS'
            elif 'error: could not compile' in o or re.search(r'^error(\[E\d+\])?:', o, re.M) and 'test result' not in o:
                st = 'COMPILE_ERR'
            elif r.returncode in (137, -9):
                st = 'TIMEOUT'
            else:
                st = 'SUITE_FAIL'
        finally:
            restore(d, m)
        res.append({'id': m['id'], 'suite': st})
        with open(os.path.join(W, 'suite.w%d.jsonl' % i), 'a') as fh:
            fh.write(json.dumps(res[-1]) + '\n')
    return res


def suite(jobs):
    ms = load('mutants.jsonl')
    done = set()
    for i in range(64):
        for r in load('suite.w%d.jsonl' % i):
            done.add(r['id'])
    todo = [m for m in ms if m['id'] not in done]
    print('%d mutants, %d to run' % (len(ms), len(todo)))
    if todo:
        d0 = worker_dir(0)
        subprocess.run(['cargo', 'test', '--offline', '--test', 'fasta', '--test', 'fastq', '--no-run'], cwd=d0,
                       env=dict(os.environ, CARGO_NET_OFFLINE='true', RUSTFLAGS='-Awarnings'), stdout=subprocess.DEVNULL, stderr=subprocess.DEVNULL)
        for i in range(jobs):
            worker_dir(i)   # copies of the built target directory are made before any worker starts
        chunks = [(i, todo[i::jobs]) for i in range(jobs)]
        with ThreadPoolExecutor(max_workers=jobs) as ex:
            list(ex.map(suite_one, chunks))
    allr = {}
    for i in range(64):
        for r in load('suite.w%d.jsonl' % i):
            allr[r['id']] = r['suite']
    with open(os.path.join(W, 'suite.jsonl'), 'w') as fh:
        for k in sorted(allr):
            fh.write(json.dumps({'id': k, 'suite': allr[k]}) + '\n')
    from collections import Counter
    print(Counter(allr.values()))


def checks_one(args):
    i, ms = args
    d = os.path.join(W, 'c%d' % i)
    os.makedirs(d, exist_ok=True)
    subprocess.run(['rsync', '-a', '--delete', '--exclude', 'target', '--exclude', '.git', REPO + '/', d + '/'], check=True)
    out = []
    for m in ms:
        apply(d, m)
        try:
            r = subprocess.run(['python3', os.path.join(ROOT, 'sa', 'allkeys.py'), d], stdout=subprocess.PIPE, stderr=subprocess.DEVNULL, text=True)
            try:
                fired = json.loads(r.stdout.strip().split('\n')[-1])
            except Exception:
                fired = {'error': r.stdout[-300:]}
        finally:
            restore(d, m)
        rec = dict(m)
        rec['fired'] = fired
        out.append(rec)
        with open(os.path.join(W, 'checks.w%d.jsonl' % i), 'a') as fh:
            fh.write(json.dumps(rec) + '\n')
    return out


def checks(jobs):
    ms = {m['id']: m for m in load('mutants.jsonl')}
    want = ('SUITE_FAIL', 'TIMEOUT') if '--killed' in sys.argv else ('SUITE_PASS',)
    surv = [ms[r['id']] for r in load('suite.jsonl') if r['suite'] in want]
    done = set()
    for i in range(64):
        for r in load('checks.w%d.jsonl' % i):
            done.add(r['id'])
    todo = [m for m in surv if m['id'] not in done]
    print('%d survivors, %d to check' % (len(surv), len(todo)))
    if todo:
        chunks = [(i, todo[i::jobs]) for i in range(jobs)]
        with ThreadPoolExecutor(max_workers=jobs) as ex:
            list(ex.map(checks_one, chunks))
    allr = {}
    for i in range(64):
        for r in load('checks.w%d.jsonl' % i):
            allr[r['id']] = r
    os.makedirs(os.path.join(HERE, 'survey'), exist_ok=True)
    if '--killed' in sys.argv:
        with open(os.path.join(HERE, 'survey', 'killed_by_suite.jsonl'), 'a') as fh:
            for k in sorted(allr):
                r = allr[k]
                if r['id'] in set(m['id'] for m in surv):
                    fh.write(json.dumps({k2: r[k2] for k2 in ('id', 'file', 'line', 'old', 'new', 'orig', 'text', 'fired')}) + '\n')
        return
    with open(os.path.join(HERE, 'survey', 'results.jsonl'), 'w') as fh:
        for k in sorted(allr):
            r = allr[k]
            fh.write(json.dumps({k2: r[k2] for k2 in ('id', 'file', 'line', 'old', 'new', 'orig', 'text', 'fired')}) + '\n')
    report()


def report():
    rs = [json.loads(l) for l in open(os.path.join(HERE, 'survey', 'results.jsonl'))]
    flagged = [r for r in rs if r['fired'] and 'error' not in r['fired']]
    silent = [r for r in rs if not r['fired']]
    err = [r for r in rs if 'error' in r['fired']]
    print('%d suite survivors: %d reported by a check, %d silent, %d extraction errors' % (len(rs), len(flagged), len(silent), len(err)))
    for title, lst in (('REPORTED', flagged), ('SILENT', silent), ('ERROR', err)):
        print('---- ' + title)
        for r in lst:
            ks = sorted(set(k.split(':')[0] for v in r['fired'].values() for k in (v if isinstance(v, list) else [v]))) if title == 'REPORTED' else ''
            print('%s:%d  %r -> %r   | %s   %s' % (r['file'], r['line'], r['old'], r['new'], r['orig'].strip()[:90], ','.join(ks)))


if __name__ == '__main__':
    cmd = sys.argv[1]
    jobs = int(sys.argv[sys.argv.index('--jobs') + 1]) if '--jobs' in sys.argv else 10
    if cmd == 'gen':
        gen('--extra' in sys.argv)
    elif cmd == 'suite':
        suite(jobs)
    elif cmd == 'checks':
        checks(jobs)
    elif cmd == 'report':
        report()
    elif cmd == 'clean':
        shutil.rmtree(W, ignore_errors=True)
