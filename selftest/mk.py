#!/usr/bin/env python3
"""mk.py <name> <file-in-repo> --old <text> --new <text> [--old/--new ...] --expect "<PID> <regex>" [--benign "<PIDs>"] --what "..."
Creates selftest/<name>.patch (or benign/<name>.patch) from string replacements against /repo's current tree."""
import difflib, os, sys
HERE = os.path.dirname(os.path.abspath(__file__))
a = sys.argv[1:]
name, f = a[0], a[1]
olds, news, exp, ben, what = [], [], [], '', ''
i = 2
while i < len(a):
    if a[i] == '--old': olds.append(a[i+1])
    elif a[i] == '--new': news.append(a[i+1])
    elif a[i] == '--expect': exp.append(a[i+1])
    elif a[i] == '--benign': ben = a[i+1]
    elif a[i] == '--what': what = a[i+1]
    i += 2
src = open(os.path.join('/repo', f)).read()
dst = src
for o, n in zip(olds, news):
    assert dst.count(o) == 1, 'old text must occur exactly once (%d): %r' % (dst.count(o), o)
    dst = dst.replace(o, n)
diff = ''.join(difflib.unified_diff(src.splitlines(True), dst.splitlines(True), 'a/' + f, 'b/' + f))
assert diff
out = os.path.join(HERE, 'benign' if ben and not exp else '', name + '.patch')
os.makedirs(os.path.dirname(out), exist_ok=True)
with open(out, 'w') as fh:
    fh.write('# what: %s\n' % what)
    for e in exp: fh.write('# expect: %s\n' % e)
    if ben: fh.write('# benign: %s\n' % ben)
    fh.write(diff)
print('wrote', out)
