#!/usr/bin/env python3
"""from_survey.py <name> <file> <line> <old-regex-as-recorded> <new>  <PID> <key-regex> [what]
turn one suite-surviving mutant of selftest/survey/results.jsonl into a permanent self-test patch"""
import difflib, json, os, sys
HERE = os.path.dirname(os.path.abspath(__file__))
name, f, line, old, new, pid, rx = sys.argv[1:8]
what = sys.argv[8] if len(sys.argv) > 8 else ''
rs = [json.loads(l) for l in open(os.path.join(HERE, 'survey', 'results.jsonl'))]
m = [r for r in rs if r['file'] == f and r['line'] == int(line) and r['old'] == old and r['new'] == new]
assert len(m) == 1, m
m = m[0]
src = open(os.path.join('/repo', f)).read().split('\n')
assert src[m['line'] - 1] == m['orig']
dst = list(src)
if m['new'] == '<deleted>':
    del dst[m['line'] - 1]
else:
    dst[m['line'] - 1] = m['text']
diff = ''.join(difflib.unified_diff([x + '\n' for x in src], [x + '\n' for x in dst], 'a/' + f, 'b/' + f))
if pid == 'BENIGN':
    os.makedirs(os.path.join(HERE, 'benign'), exist_ok=True)
    with open(os.path.join(HERE, 'benign', name + '.patch'), 'w') as fh:
        fh.write('# what: %s (mutation survey: equivalent mutant, behaviour unchanged)\n# benign: %s\n' % (what or '%s:%s %r -> %r' % (f, line, old, new), rx))
        fh.write(diff)
else:
    with open(os.path.join(HERE, name + '.patch'), 'w') as fh:
        fh.write('# what: %s (mutation survey: passes the pinned test suite)\n# expect: %s %s\n' % (what or '%s:%s %r -> %r' % (f, line, old, new), pid, rx))
        fh.write(diff)
print('wrote', name)
