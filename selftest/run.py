#!/usr/bin/env python3
"""E9: checker validation.  Every *.patch in this directory (and in benign/) carries a header:
    # expect: <property> <regex over violation keys>      (one or more lines; the patch must make
                                                           that property's check report a matching key)
    # benign: <property> [...]                            (the listed checks must stay silent)
    # what: free text
The patch is applied to a scratch copy of /repo (never to /repo itself); the copy must still
compile (extraction fails otherwise and the self-test is reported as broken).
usage: run.py [names...] [--jobs N]     exit 0 iff every expectation is met
A patch that no longer applies to the current tree is reported as skipped, never as a failure."""
import json, os, re, shutil, subprocess, sys, tempfile
from concurrent.futures import ThreadPoolExecutor
HERE = os.path.dirname(os.path.abspath(__file__))
ROOT = os.path.dirname(HERE)


def parse(path):
    exp, ben, what = [], [], ''
    for l in open(path):
        if l.startswith('# expect:'):
            pid, rx = l[len('# expect:'):].strip().split(None, 1)
            exp.append((pid, rx))
        elif l.startswith('# benign:'):
            ben += l[len('# benign:'):].split()
        elif l.startswith('# what:'):
            what = l[len('# what:'):].strip()
    return exp, ben, what


def run_patch(patch, repo, pids):
    """apply `patch` to a scratch copy of `repo`, run the checks of `pids`; -> {pid: [violation keys]} or None"""
    d = tempfile.mkdtemp(prefix='seqio-mut-')
    try:
        subprocess.run(['rsync', '-a', '--exclude', 'target', '--exclude', '.git', repo + '/', d + '/'], check=True)
        r = subprocess.run(['patch', '-p1', '--no-backup-if-mismatch', '-s', '-i', patch], cwd=d, stdout=subprocess.PIPE, stderr=subprocess.STDOUT, text=True)
        if r.returncode != 0:
            return None
        out = {}
        for pid in pids:
            r = subprocess.run([os.path.join(ROOT, 'check'), pid, '--repo', d, '--evidence-dir', os.path.join(d, '.evidence')], stdout=subprocess.PIPE, stderr=subprocess.STDOUT, text=True)
            out[pid] = re.findall(r'key=(.+)', r.stdout)
        return out
    finally:
        shutil.rmtree(d, ignore_errors=True)


def run_one(path, repo='/repo', only=None):
    name = os.path.relpath(path, HERE)
    exp, ben, what = parse(path)
    d = tempfile.mkdtemp(prefix='seqio-mut-')
    try:
        subprocess.run(['rsync', '-a', '--exclude', 'target', '--exclude', '.git', repo + '/', d + '/'], check=True)
        r = subprocess.run(['patch', '-p1', '--no-backup-if-mismatch', '-s', '-i', path], cwd=d, stdout=subprocess.PIPE, stderr=subprocess.STDOUT, text=True)
        if r.returncode != 0:
            return {'name': name, 'status': 'skipped', 'detail': 'patch does not apply: ' + r.stdout[-200:]}
        evd = os.path.join(d, '.evidence')
        res = {'name': name, 'what': what, 'status': 'ok', 'fired': [], 'detail': ''}
        for pid in sorted(set([p for p, _ in exp] + ben)):
            if only is not None and pid != only:
                continue
            r = subprocess.run([os.path.join(ROOT, 'check'), pid, '--repo', d, '--evidence-dir', evd],
                               stdout=subprocess.PIPE, stderr=subprocess.STDOUT, text=True)
            keys = re.findall(r'key=(.+)', r.stdout)
            if 'INFRA' in r.stdout or 'fact extraction failed' in r.stdout:
                res['status'] = 'broken'
                res['detail'] += ' %s: mutant does not compile / extraction failed: %s' % (pid, r.stdout[-300:])
                continue
            for (p2, rx) in exp:
                if p2 != pid:
                    continue
                hit = [k for k in keys if re.search(rx, k)]
                if hit:
                    res['fired'] += hit
                else:
                    res['status'] = 'MISSED'
                    res['detail'] += ' %s: expected a key matching /%s/, got %s' % (pid, rx, keys)
            if pid in ben and keys:
                res['status'] = 'FALSE-ALARM'
                res['detail'] += ' %s: benign variant raised %s' % (pid, keys)
        return res
    finally:
        shutil.rmtree(d, ignore_errors=True)


def main():
    args = [a for a in sys.argv[1:] if not a.startswith('--')]
    jobs = 4
    if '--jobs' in sys.argv:
        jobs = int(sys.argv[sys.argv.index('--jobs') + 1])
        args = [a for a in args if a != str(jobs)]
    files = []
    for root, _, fs in os.walk(HERE):
        for f in sorted(fs):
            if f.endswith('.patch'):
                p = os.path.join(root, f)
                if not args or any(a in p for a in args):
                    files.append(p)
    with ThreadPoolExecutor(max_workers=jobs) as ex:
        results = list(ex.map(run_one, sorted(files)))
    bad = 0
    for r in results:
        print('%-12s %s %s' % (r['status'], r['name'], r.get('detail', '')[:400]))
        if r['status'] in ('MISSED', 'FALSE-ALARM', 'broken'):
            bad += 1
    print('%d patches, %d not as expected' % (len(results), bad))
    if '--json' in sys.argv:
        print(json.dumps(results))
    return 1 if bad else 0


if __name__ == '__main__':
    sys.exit(main())
