#!/usr/bin/env python3
"""Regenerates the two whole-crate benign refactorings from /repo's current tree (they stop applying whenever
/repo changes): benign/inline-get-buf.patch and benign/rename-private-helpers.patch.  Each result is
compile-checked (cargo check --offline) in a scratch copy before the patch is written."""
import difflib, os, re, shutil, subprocess, sys, tempfile
HERE = os.path.dirname(os.path.abspath(__file__))
FILES = ['src/fasta.rs', 'src/fastq.rs', 'src/lib.rs', 'src/parallel.rs']


def build(name, what, benign, edit):
    d = tempfile.mkdtemp(prefix='seqio-refac-')
    try:
        subprocess.run(['rsync', '-a', '--exclude', 'target', '--exclude', '.git', '/repo/', d + '/'], check=True)
        diff = ''
        for f in FILES:
            src = open(os.path.join('/repo', f)).read()
            dst = edit(f, src)
            if dst != src:
                open(os.path.join(d, f), 'w').write(dst)
                diff += ''.join(difflib.unified_diff(src.splitlines(True), dst.splitlines(True), 'a/' + f, 'b/' + f))
        r = subprocess.run(['cargo', 'check', '--offline', '--tests'], cwd=d, env=dict(os.environ, CARGO_NET_OFFLINE='true', CARGO_TARGET_DIR='/verif/.cache/target-refactor'),
                           stdout=subprocess.PIPE, stderr=subprocess.STDOUT, text=True)
        if r.returncode != 0:
            print(name, 'DOES NOT COMPILE\n', r.stdout[-1500:])
            return
        with open(os.path.join(HERE, 'benign', name + '.patch'), 'w') as fh:
            fh.write('# what: %s\n# benign: %s\n' % (what, benign))
            fh.write(diff)
        print('wrote', name, diff.count('\n@@'))
    finally:
        shutil.rmtree(d, ignore_errors=True)


def inline_get_buf(f, s):
    if f not in ('src/fasta.rs', 'src/fastq.rs'):
        return s
    return s.replace('self.get_buf()', 'self.buf_reader.buffer()')


REN = [(r'\btrim_cr\b', 'strip_cr'), (r'\bfill_buf\b', 'refill'), (r'\bincrement_record\b', 'advance_record'),
       (r'(?<=self\.)make_room\(', 'compact('), (r'fn make_room\(', 'fn compact('),
       (r'(?<=self\.)grow\(', 'enlarge('), (r'fn grow\(', 'fn enlarge('),
       (r'\bget_buf\b', 'buf'), (r'(?<=self\.)search\(', 'locate('), (r'fn search\(', 'fn locate('),
       (r'\bresume_incomplete_search\b', 'resume_partial'), (r'(?<=self\.)validate\(', 'check_record('), (r'fn validate\(', 'fn check_record('),
       (r'\bget_error_pos\b', 'error_position'), (r'\bfirst_byte\b', 'first_nonblank'), (r'\bfind_line\b', 'next_line'), (r'\bcheck_end\b', 'at_end')]


def rename(f, s):
    out = []
    for line in s.split('\n'):
        if line.lstrip().startswith('//'):
            out.append(line)
            continue
        for rx, new in REN:
            line = re.sub(rx, new, line)
        out.append(line)
    return '\n'.join(out)


build('inline-get-buf', 'benign: the private buffer accessor is inlined at every call site', 'C01 C02 C03 C04 C05 C06 C09 C12 C13 C14 C17 C18 C20', inline_get_buf)
build('rename-private-helpers', 'benign: private helpers renamed (trim_cr, fill_buf, increment_record, make_room, grow, get_buf, search, resume_incomplete_search, validate, get_error_pos, first_byte, find_line, check_end)',
      'C01 C02 C03 C04 C05 C06 C09 C12 C13 C14 C17 C18 C20 C10 C11', rename)
