#!/usr/bin/env python3
"""refrun.py [name-substr...] [--rules R1,R2] : run all rule groups on the cached facts of the agent refactorings
(.cache/ref-*.json from reffacts.py) and print the violated keys (these are FALSE ALARMS unless shown otherwise)"""
import glob, importlib, json, os, re, sys
from concurrent.futures import ProcessPoolExecutor
ROOT = os.path.dirname(os.path.dirname(os.path.abspath(__file__)))
sys.path.insert(0, os.path.join(ROOT, 'sa'))


def one(f):
    import props
    from flow import Results
    from mir import Program
    prog = Program.load(f)
    R = Results()
    errs = []
    for g, (m, fn) in props.GROUPS.items():
        try:
            getattr(importlib.import_module(m), fn)(prog, R)
        except Exception as e:
            errs.append('CRASH %s: %r' % (g, e))
    props.layout_guard(prog, R)
    claimed = set(r for sp in props.PROPS.values() for r in sp['rules'])
    known = set()
    try:
        known = set(k['key'] for k in json.load(open(os.path.join(ROOT, 'known_findings.json'))).get('findings', []) if k.get('status') == 'known')
    except Exception:
        pass
    bad = sorted(set(it['key'] for it in R.items if not it['ok'] and it['rule'] in claimed and it['key'] not in known))
    und = sorted(set(it['key'] for it in R.items if it.get('undecided') and it['rule'] in claimed))
    return os.path.basename(f)[4:-5], bad, errs, und


if __name__ == '__main__':
    args = [a for a in sys.argv[1:] if not a.startswith('--')]
    files = sorted(glob.glob(os.path.join(ROOT, '.cache', 'ref-*.json')))
    if args:
        files = [f for f in files if any(a in f for a in args)]
    with ProcessPoolExecutor(max_workers=10) as ex:
        res = list(ex.map(one, files))
    tot = 0
    totu = 0
    import collections
    urules = collections.Counter()
    for name, bad, errs, und in res:
        tot += len(bad)
        totu += len(und)
        for k in und:
            urules[k.split(':')[0].split('/')[0]] += 1
        rules = sorted(set(k.split(':')[0].split('/')[0] for k in bad))
        print('%-6s %3d  %s %s   [%d without verdict]' % (name, len(bad), ' '.join(rules), ' '.join(errs), len(und)))
        if '-v' in sys.argv or args:
            for k in bad:
                print('        ', k)
    if '-u' in sys.argv:
        for name, bad, errs, und in res:
            for k in und:
                print('   ?', name, k)
    print('instances without verdict:', totu, dict(urules.most_common()))
    print('total', tot)
