#!/usr/bin/env python3
"""eval_refactoring.py <diff> <name> [what...]
A behaviour-preserving refactoring produced by an independent sub-agent (round 5) is applied to a scratch
copy of /repo; the pinned suite + doc tests must pass there; then every rule group is run on it
(sa/allkeys.py).  Silent -> the diff is filed as selftest/benign/<name>.patch (must stay silent for all 20
properties).  Any reported key is printed: it is either a false alarm of the checks (to be fixed at the
root) or evidence that the refactoring is not behaviour-preserving (to be shown with a failing input)."""
import json, os, shutil, subprocess, sys, tempfile
HERE = os.path.dirname(os.path.abspath(__file__))
ROOT = os.path.dirname(HERE)
diff, name = sys.argv[1], sys.argv[2]
what = ' '.join(sys.argv[3:]) or 'independent behaviour-preserving refactoring'
d = tempfile.mkdtemp(prefix='seqio-refac-')
try:
    subprocess.run(['rsync', '-a', '--exclude', '.git', '/repo/', d + '/'], check=True)
    r = subprocess.run(['patch', '-p1', '-s', '--no-backup-if-mismatch', '-i', os.path.abspath(diff)], cwd=d, stdout=subprocess.PIPE, stderr=subprocess.STDOUT, text=True)
    if r.returncode != 0:
        print(name, 'PATCH DOES NOT APPLY', r.stdout[-300:])
        sys.exit(2)
    env = dict(os.environ, CARGO_NET_OFFLINE='true', RUSTFLAGS='-Awarnings')
    if '--no-suite' not in sys.argv:
        r = subprocess.run(['cargo', 'test', '--offline'], cwd=d, env=env, stdout=subprocess.PIPE, stderr=subprocess.STDOUT, text=True)
        if r.returncode != 0:
            print(name, 'SUITE FAILS', r.stdout[-600:])
            sys.exit(2)
    r = subprocess.run(['python3', os.path.join(ROOT, 'sa', 'allkeys.py'), d], stdout=subprocess.PIPE, stderr=subprocess.DEVNULL, text=True)
    fired = json.loads(r.stdout.strip().split('\n')[-1])
    if fired:
        print(name, 'REPORTED:')
        for pid, ks in sorted(fired.items()):
            for k in (ks if isinstance(ks, list) else [ks]):
                print('   ', pid, k)
        sys.exit(1)
    body = open(diff).read()
    with open(os.path.join(HERE, 'benign', name + '.patch'), 'w') as fh:
        fh.write('# what: %s (round 5: refactoring by an independent sub-agent, equivalence checked by its differential harness)\n' % what)
        fh.write('# benign: ' + ' '.join('C%02d' % i for i in range(1, 21)) + '\n')
        fh.write(body)
    print(name, 'silent -> filed as benign/%s.patch' % name)
finally:
    shutil.rmtree(d, ignore_errors=True)
