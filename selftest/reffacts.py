#!/usr/bin/env python3
"""reffacts.py : extract (cached) facts for every selftest/refactorings/*.diff applied to a scratch copy of /repo;
prints `<id> <facts path>` (debug helper for rule development)"""
import glob, importlib.machinery, importlib.util, json, os, shutil, subprocess, sys, tempfile
ROOT = os.path.dirname(os.path.dirname(os.path.abspath(__file__)))
sys.path.insert(0, os.path.join(ROOT, 'sa'))
loader = importlib.machinery.SourceFileLoader('check_cli', os.path.join(ROOT, 'check'))
spec = importlib.util.spec_from_loader('check_cli', loader)
chk = importlib.util.module_from_spec(spec)
loader.exec_module(chk)
out = {}
for f in sorted(glob.glob(os.path.join(ROOT, 'selftest', 'refactorings', '*.diff'))):
    name = os.path.basename(f)[:-5]
    if len(sys.argv) > 1 and not any(a in name for a in sys.argv[1:]):
        continue
    d = tempfile.mkdtemp(prefix='seqio-rf-')
    try:
        subprocess.run(['rsync', '-a', '--exclude', 'target', '--exclude', '.git', '/repo/', d + '/'], check=True)
        r = subprocess.run(['patch', '-p1', '-s', '--no-backup-if-mismatch', '-i', f], cwd=d, stdout=subprocess.PIPE, stderr=subprocess.STDOUT, text=True)
        if r.returncode != 0:
            print(name, 'PATCH FAILS')
            continue
        p, h, _ = chk.get_facts(d)
        keep = os.path.join(ROOT, '.cache', 'ref-%s.json' % name)
        shutil.copyfile(p, keep)
        out[name] = keep
        print(name, keep)
    finally:
        shutil.rmtree(d, ignore_errors=True)
