"""E2 helpers on top of mir.py: closure environments, interprocedural provenance, forward flow,
rule bookkeeping."""
from collections import defaultdict, deque
from mir import Program, Body, Operand, Place, DefUse, roots_of, data_deps, strip_generics


# --------------------------------------------------------------------------- rule bookkeeping

class Results:
    """Collects obligations (rule instances) and their verdicts for one check run."""

    def __init__(self):
        self.items = []       # dicts: rule, key, ok, site, detail
        self.rule_texts = {}

    def rule(self, rid, text):
        self.rule_texts[rid] = text

    def add(self, rule, fn, instance, ok, site='', detail='', undecided=False):
        """ok=True: obligation discharged; ok=False: the code is recognised and contradicts the rule (a
        violation); undecided=True: the code is not in a shape this rule can judge - recorded in the
        evidence, never reported as a violation (a behaviour-preserving rewrite must not raise an alarm)"""
        fnk = fn.key if isinstance(fn, Body) else (fn or '')
        key = '%s:%s:%s' % (rule, fnk, instance)
        if undecided:
            ok = True
        for it in self.items:
            if it['key'] == key and it['ok'] == bool(ok) and it.get('undecided', False) == undecided:
                return bool(ok)
        it = {'rule': rule, 'key': key, 'ok': bool(ok), 'site': site, 'detail': detail}
        if undecided:
            it['undecided'] = True
        self.items.append(it)
        return bool(ok)

    def undecided(self, rule, fn, instance, site='', detail=''):
        return self.add(rule, fn, instance, True, site, detail, undecided=True)

    def anchor_missing(self, rule, what, hard=False):
        """hard: the missing thing is an obligation in itself (e.g. "the end marker is sent") -> violation.
        soft (default): the idiom this rule reasons about was not found -> no verdict from this rule."""
        if hard:
            self.items.append({'rule': rule, 'key': '%s/ANCHOR::%s' % (rule, what), 'ok': False,
                               'site': '', 'detail': 'not found: %s' % what})
        else:
            self.items.append({'rule': rule, 'key': '%s/ANCHOR::%s' % (rule, what), 'ok': True, 'undecided': True,
                               'site': '', 'detail': 'idiom not recognised, no verdict from this rule: %s' % what})

    def floor(self, rule, expected_min, hard=False):
        n = sum(1 for i in self.items if i['rule'] == rule and not i.get('undecided'))
        if n < expected_min:
            it = {'rule': rule, 'key': '%s/FLOOR::' % rule, 'ok': not hard, 'site': '',
                  'detail': 'only %d instances were judged, %d were judged when the rule was confirmed by hand '
                            '(the code changed shape: %s)' % (n, expected_min, 'violation' if hard else 'no verdict for the missing ones')}
            if not hard:
                it['undecided'] = True
            self.items.append(it)

    def count(self, rule):
        return sum(1 for i in self.items if i['rule'] == rule)


def site(body, line):
    return '%s:%s (%s)' % (body.file, line, body.key)


# --------------------------------------------------------------------------- closures

class Closures:
    """Where each closure is constructed (parent body, aggregate statement) and what its upvars
    are bound to."""

    def __init__(self, prog):
        self.prog = prog
        self.site = {}      # closure path -> (parent Body, Stmt)   (aggregate construction)
        self.const_site = defaultdict(list)  # closure path -> [(parent Body, Term, argidx)] for capture-less closures
        for b in prog.bodies.values():
            for blk in b.blocks:
                for s in blk.stmts:
                    if s.k == 'assign' and s.rv.k == 'agg' and s.rv.j.get('agg') == 'closure':
                        self.site[s.rv.j['closure']] = (b, s)
                t = blk.term
                if t.k == 'call':
                    for i, a in enumerate(t.args):
                        if a.is_const and 'closure' in a.j:
                            self.const_site[a.j['closure']].append((b, t, i))

    def upvar_operand(self, closure_body, field_index):
        """(parent Body, Operand) the upvar `field_index` of the closure was initialised from"""
        s = self.site.get(closure_body.path)
        if not s:
            return None
        parent, stmt = s
        if field_index < len(stmt.rv.ops):
            return parent, stmt.rv.ops[field_index]
        return None

    def passed_to(self, closure_path):
        """[(Body, Term, argidx)] calls that receive the closure value as an argument"""
        out = list(self.const_site.get(closure_path, []))
        s = self.site.get(closure_path)
        if s:
            parent, stmt = s
            for (k, t, idx, viaref) in forward_sinks(parent, stmt.place.local):
                if k == 'call':
                    out.append((parent, t, idx))
        return out


IDENTITY_CALLS = (
    'std::ops::Deref::deref', 'std::ops::DerefMut::deref_mut', 'std::convert::AsRef::as_ref',
    'std::convert::AsMut::as_mut', 'std::borrow::Borrow::borrow', 'std::borrow::BorrowMut::borrow_mut',
    'std::convert::Into::into', 'std::iter::IntoIterator::into_iter',
)


def identity_through(callee):
    if callee is None:
        return None
    if callee.path in IDENTITY_CALLS:
        return 0
    return None


# combinators that call a closure with (a payload of) their receiver:
#   callee path -> (closure argidx, receiver argidx, variant of the receiver payload bound to the
#   closure's first parameter, or None when the receiver itself is bound)
CLOSURE_BINDERS = {
    'std::option::Option::map': (1, 0, 'Some'),
    'std::option::Option::and_then': (1, 0, 'Some'),
    'std::result::Result::map': (1, 0, 'Ok'),
    'std::result::Result::and_then': (1, 0, 'Ok'),
    'std::result::Result::map_err': (1, 0, 'Err'),
}


class Root:
    """A normalised provenance root, comparable across bodies."""
    __slots__ = ('kind', 'body', 'data', 'fields')

    def __init__(self, kind, body, data, fields=()):
        self.kind = kind      # 'param' | 'call' | 'const' | 'agg' | 'bin' | 'un' | 'discr' | 'other' | 'undef'
        self.body = body
        self.data = data      # param index | Term | Operand | Stmt
        self.fields = tuple(fields)

    def is_param(self, body_key=None, index=None, fields=None):
        if self.kind != 'param':
            return False
        if body_key is not None and self.body.key != body_key:
            return False
        if index is not None and self.data != index:
            return False
        if fields is not None and tuple(fields) != self.fields:
            return False
        return True

    def is_call(self, *suffixes):
        return self.kind == 'call' and self.data.callee is not None and self.data.callee.is_(*suffixes)

    def describe(self):
        if self.kind == 'param':
            nm = self.body.names.get(self.data, '_%d' % self.data)
            return 'param %s%s of %s' % (nm, ''.join('.' + f for f in self.fields), self.body.key)
        if self.kind == 'call':
            c = self.data.callee
            return 'result of %s at %s:%s' % (c.path if c else '?', self.body.file, self.data.line)
        if self.kind == 'const':
            return 'const %s' % self.data.j.get('s')
        if self.kind in ('bin', 'un', 'agg', 'discr', 'other'):
            return '%s %s at %s:%s' % (self.kind, self.data.rv.pretty(self.body), self.body.file, self.data.line)
        return self.kind


def prov(prog, closures, body, x, through=identity_through, du_cache=None, _depth=0):
    """Interprocedural (closure-environment aware) provenance roots of operand/place `x` in
    `body`.  Closure upvars are followed into the body that constructs the closure."""
    if du_cache is None:
        du_cache = {}
    du = du_cache.get(body.path)
    if du is None:
        du = du_cache[body.path] = DefUse(body)
    out = []
    for r in roots_of(body, x, du, through_calls=through):
        k = r[0]
        suffix = r[-1]
        names = tuple(f[1] for f in suffix)
        if k == 'arg':
            loc = r[1]
            if body.meta.get('kind') == 'Closure' and loc == 1 and suffix and _depth < 8 \
                    and suffix[0][0] != '[]':
                up = closures.upvar_operand(body, suffix[0][0])
                if up is not None:
                    pbody, op = up
                    sub = prov(prog, closures, pbody, op, through, du_cache, _depth + 1)
                    rest = names[1:]
                    for s in sub:
                        if rest:
                            s = Root(s.kind, s.body, s.data, tuple(s.fields) + tuple(rest))
                        out.append(s)
                    continue
            if body.meta.get('kind') == 'Closure' and loc == 2 and _depth < 8:
                # first explicit parameter of a closure handed to a known combinator
                bound = False
                for (pb, t, ai) in closures.passed_to(body.path):
                    cal = t.callee
                    if cal is None or cal.path not in CLOSURE_BINDERS:
                        continue
                    cidx, ridx, variant = CLOSURE_BINDERS[cal.path]
                    if ai != cidx:
                        continue
                    # re-run provenance in the parent on a synthetic payload projection
                    recv = t.args[ridx]
                    if recv.is_const:
                        continue
                    pj = {'l': recv.place.local, 'p': list(recv.place.proj)}
                    if variant:
                        pj['p'] = pj['p'] + [{'k': 'downcast', 'variant': variant, 'vi': -1},
                                             {'k': 'field', 'i': 0, 'name': '0', 'owner': '', 'ty': ''}]
                    sub = prov(prog, closures, pb, Place(pj), through, du_cache, _depth + 1)
                    for s in sub:
                        if names:
                            s = Root(s.kind, s.body, s.data, tuple(s.fields) + tuple(names))
                        out.append(s)
                    bound = True
                if bound:
                    continue
            out.append(Root('param', body, loc, names))
        elif k == 'call':
            out.append(Root('call', body, r[1], names))
        elif k == 'const':
            out.append(Root('const', body, r[1], names))
        elif k == 'undef':
            out.append(Root('undef', body, r[1], names))
        else:
            out.append(Root(k, body, r[1], names))
    return out


# --------------------------------------------------------------------------- forward flow

def uses_index(body):
    """local -> list of use records (block, where, kind, node, idx)
       kind: 'move'/'copy' in stmt rvalue operand, 'ref' (borrow of a place rooted at local),
             'callarg', 'callfunc', 'switch', 'drop', 'discr', 'assert'"""
    idx = defaultdict(list)
    for b in body.cfg.reachable:
        blk = body.blocks[b]
        for i, s in enumerate(blk.stmts):
            if s.k != 'assign':
                continue
            rv = s.rv
            for oi, o in enumerate(rv.ops):
                if not o.is_const:
                    idx[o.place.local].append((b, i, o.k, s, oi))
            if rv.k in ('ref', 'rawptr'):
                idx[rv.place.local].append((b, i, 'ref', s, 0))
            if rv.k == 'discr':
                idx[rv.place.local].append((b, i, 'discr', s, 0))
        t = blk.term
        if t.k == 'call':
            for ai, a in enumerate(t.args):
                if not a.is_const:
                    idx[a.place.local].append((b, 'term', 'callarg', t, ai))
            if t.func and not t.func.is_const:
                idx[t.func.place.local].append((b, 'term', 'callfunc', t, 0))
        elif t.k == 'switch':
            if not t.discr.is_const:
                idx[t.discr.place.local].append((b, 'term', 'switch', t, 0))
        elif t.k == 'drop':
            idx[t.place.local].append((b, 'term', 'drop', t, 0))
        elif t.k == 'assert' and not t.cond.is_const:
            idx[t.cond.place.local].append((b, 'term', 'assert', t, 0))
    return idx


PASS_THROUGH = {
    'std::ops::Try::branch', 'std::ops::FromResidual::from_residual', 'std::convert::From::from',
    'std::convert::Into::into', 'std::result::Result::map', 'std::option::Option::map',
    'std::option::Option::ok_or',
}


_PROG = [None]


def set_prog(prog):
    _PROG[0] = prog


def is_lossless_map_err(term, body=None):
    """`r.map_err(From::from)` / `map_err(Into::into)` / `map_err(Error::Io)` / `map_err(|e| { ..; Error::from(e) })`:
    the error is converted or wrapped, not replaced (the closure form: its result is From::from / Error::Io / Into::into
    of its own parameter)"""
    c = term.callee
    if c is None or c.path not in ('std::result::Result::map_err',) or len(term.args) != 2:
        return False
    a = term.args[1]
    if a.is_const and 'closure' not in a.j:
        f = str(a.fn() or '') + ' ' + str(a.j.get('s') or '')
        return 'From>::from' in f or 'convert::From::from' in f or 'Into>::into' in f or 'convert::Into::into' in f or 'as std::convert::From' in f or f.strip().endswith('Error::Io')
    prog = _PROG[0]
    if prog is None or body is None:
        return False
    cb = None
    if a.is_const and 'closure' in a.j:
        cb = prog.bodies.get(a.j['closure'])
    else:
        for r in roots_of(body, a):
            if r[0] == 'agg' and r[1].rv.j.get('agg') == 'closure':
                cb = prog.bodies.get(r[1].rv.j['closure'])
    if cb is None:
        return False
    def converts(fb, param, depth=0):
        """every value returned by fb is From::from / Into::into / Error::Io of its parameter `param` (possibly through
        one private helper taking it: `|e| self.seek_failed(e)`)"""
        rs = roots_of(fb, Place({'l': 0, 'p': []}))
        if not rs:
            return False
        for r in rs:
            if r[0] == 'call' and r[1].callee and (r[1].callee.path in ('std::convert::From::from', 'std::convert::Into::into')) and r[1].args:
                src = roots_of(fb, r[1].args[0])
            elif r[0] == 'agg' and r[1].rv.j.get('variant') == 'Io' and r[1].rv.ops:
                src = roots_of(fb, r[1].rv.ops[0])
            elif r[0] == 'arg' and r[1] == param and not r[-1]:
                continue      # the error itself, handed back (`|e| { cleanup(); e }`)
            elif r[0] == 'call' and depth < 2 and prog.local_callee_body(r[1].callee) is not None:
                hb = prog.local_callee_body(r[1].callee)
                idx = [i for i, a2 in enumerate(r[1].args) if (not a2.is_const) and all(q[0] == 'arg' and q[1] == param and not q[-1] for q in roots_of(fb, a2)) and roots_of(fb, a2)]
                if len(idx) == 1 and converts(hb, idx[0] + 1, depth + 1):
                    continue
                return False
            else:
                return False
            if not (src and all(q[0] == 'arg' and q[1] == param and not q[-1] for q in src)):
                return False
        return True
    return converts(cb, 2)


def forward_sinks(body, local, follow_refs=True, max_nodes=500, through=(), skip_variants=()):
    """Where does the value held in `local` end up?  Follows moves/copies/casts into other locals,
    (optionally) borrows, and field extraction.  Returns records:
       ('call', Term, argidx, via_ref)    passed to a call
       ('agg', Stmt, opidx, via_ref)      placed into an aggregate (then also followed)
       ('ret', None, 0, via_ref)          stored into _0
       ('drop', Term, 0, via_ref)
       ('store', Stmt, 0, via_ref)        stored into a projection of another place
       ('switch'|'discr', node, 0, via_ref)
    """
    ui = uses_index(body)
    out = []
    seen = set()
    work = deque([(local, False)])
    n = 0
    while work and n < max_nodes:
        l, via = work.popleft()
        if (l, via) in seen:
            continue
        seen.add((l, via))
        n += 1
        if l == 0:
            out.append(('ret', None, 0, via))
            continue
        for (b, i, kind, node, oi) in ui.get(l, []):
            if kind in ('move', 'copy'):
                s = node
                if skip_variants:
                    opl = s.rv.ops[oi].place
                    if opl is not None and any(p['k'] == 'downcast' and p['variant'] in skip_variants for p in opl.proj):
                        continue      # the success payload is not the value being tracked
                rvk = s.rv.k
                if rvk in ('use', 'cast'):
                    if s.place.is_local():
                        work.append((s.place.local, via))
                    else:
                        out.append(('store', s, 0, via))
                        if s.place.local == 0:
                            out.append(('ret', None, 0, via))
                elif rvk == 'agg':
                    out.append(('agg', s, oi, via))
                    if s.place.is_local():
                        work.append((s.place.local, via))
                    elif s.place.local == 0:
                        out.append(('ret', None, 0, via))
                else:
                    out.append(('compute', s, oi, via))
            elif kind == 'ref':
                if follow_refs and node.place.is_local():
                    work.append((node.place.local, True))
            elif kind == 'callarg':
                out.append(('call', node, oi, via))
                if through and node.callee is not None and (node.callee.path in through or is_lossless_map_err(node, body) or (node.callee.path == 'std::result::Result::and_then' and oi == 0)) and not via:
                    if node.dest.is_local():
                        work.append((node.dest.local, via))
                    elif node.dest.local == 0:
                        out.append(('ret', None, 0, via))
            elif kind == 'drop':
                if skip_variants and node.place is not None and any(p['k'] == 'downcast' and p['variant'] in skip_variants for p in node.place.proj):
                    continue      # dropping what is left of the success payload is not dropping the error
                out.append(('drop', node, 0, via))
            elif kind in ('switch', 'discr', 'callfunc', 'assert'):
                out.append((kind, node, 0, via))
    return out


def call_sites(prog, pred, bodies=None):
    """[(Body, block, Term)] for all calls whose Callee satisfies pred"""
    out = []
    for b in (bodies if bodies is not None else prog.bodies.values()):
        for blk, t in b.calls():
            if t.callee is not None and pred(t.callee):
                out.append((b, blk, t))
    return out


def in_loop(body, block):
    """headers of natural loops containing the block"""
    return [h for h, blocks in body.cfg.natural_loops().items() if block in blocks]


def const_enum_of_promoted(body, operand):
    """If operand is a promoted constant whose body builds `&Enum::Variant`, return (adt, variant)"""
    if not operand.is_const or 'promoted' not in operand.j:
        return None
    idx = operand.j['promoted']
    if idx >= len(body.promoted):
        return None
    pb = body.promoted[idx]
    for blk in pb.blocks:
        for s in blk.stmts:
            if s.k == 'assign' and s.rv.k == 'agg' and s.rv.j.get('agg') == 'adt':
                return (strip_generics(s.rv.j['adt']), s.rv.j['variant'])
            if s.k == 'assign' and s.rv.k == 'use' and s.rv.ops[0].is_const:
                return ('const', s.rv.ops[0].j.get('s'))
    return None


def resolve_const_operand(body, op, du=None, depth=0):
    """Follow a local back to a constant operand (through copies, refs, derefs and promoteds).
    Returns ('int', n) | ('bytes', b) | ('enum', adt, variant) | ('str', s) | None"""
    du = du or DefUse(body)
    for r in roots_of(body, op, du):
        if r[0] == 'const':
            c = r[1]
            if 'promoted' in c.j:
                pb = body.promoted[c.j['promoted']] if c.j['promoted'] < len(body.promoted) else None
                if pb is not None:
                    # value of the promoted = what _0 refers to
                    v = resolve_const_operand(pb, Place({'l': 0, 'p': []}), None, depth + 1)
                    if v:
                        return v
                continue
            if r[-1]:
                continue
            if c.const_int() is not None:
                return ('int', c.const_int())
            bs = c.const_bytes()
            if bs is not None:
                return ('bytes', bs)
            return ('str', c.j.get('s'))
        if r[0] == 'agg':
            s = r[1]
            if s.rv.j.get('agg') == 'adt' and not s.rv.ops:
                return ('enum', strip_generics(s.rv.j['adt']), s.rv.j['variant'])
            if s.rv.j.get('agg') == 'array':
                vals = [o.const_int() for o in s.rv.ops]
                if all(v is not None for v in vals):
                    return ('bytes', bytes(vals))
    return None


def buffer_accessors(prog):
    """crate functions that just hand out the reader buffer: their return value derives from
    BufReader::buffer(&self.buf_reader) (found by what they do, e.g. `get_buf`)"""
    out = set()
    for b in prog.bodies.values():
        if b.arg_count != 1 or len(list(b.calls())) != 1:
            continue
        rs = roots_of(b, Place({'l': 0, 'p': []}), through_calls=identity_through)
        if rs and all(r[0] == 'call' and r[1].callee and r[1].callee.is_('buffer_redux::BufReader::buffer') for r in rs):
            out.add(b.path)
    return out


def is_buffer_call(prog, callee, _cache={}):
    if callee is None:
        return False
    if callee.is_('buffer_redux::BufReader::buffer'):
        return True
    key = id(prog)
    if key not in _cache:
        _cache.clear()
        _cache[key] = buffer_accessors(prog)
    cb = prog.local_callee_body(callee)
    return cb is not None and cb.path in _cache[key]


def consume_amount_is_opaque(prog, body, term, du=None):
    """the amount handed to consume() is neither a stored buffer offset nor visibly the buffer length: it comes from a
    cached field or a call result (e.g. `self.buf_len`): whether this consume re-bases or discards cannot be told"""
    if not (term.callee and term.callee.is_('std::io::BufRead::consume') and len(term.args) == 2):
        return False
    rs = roots_of(body, term.args[1], du)
    if not rs:
        return True
    for r in rs:
        if r[0] == 'arg' and r[1] == 1:
            names = [q[1] for q in r[-1]]
            if names and names[0] in ('buf_pos', 'search_pos'):
                return False
            continue          # another field of self: a cached quantity
        if r[0] == 'call':
            if r[1].callee and r[1].callee.name in ('len', 'capacity'):
                return False      # recognised: the buffer length (judged by is_discard_all) / the capacity (which is not the length)
            continue
        if r[0] == 'arg':
            continue          # parameter of a helper: decided at its callers, not here
        return False
    return True


def is_discard_all(prog, body, term, du=None):
    """`consume(n)` with n = length of the reader buffer: the buffer is emptied, nothing is re-based"""
    if not (term.callee and term.callee.is_('std::io::BufRead::consume') and len(term.args) == 2):
        return False
    rs = roots_of(body, term.args[1], du)
    return bool(rs) and all(r[0] == 'call' and r[1].callee and r[1].callee.name == 'len' and
                            all(q[0] == 'call' and is_buffer_call(prog, q[1].callee) for q in roots_of(body, r[1].args[0], du, through_calls=identity_through))
                            for r in rs)
