#!/bin/bash
# usage: extract.sh <repo_dir> <out.json> [persistent_target_dir]
# Runs the fact extractor over <repo_dir>'s library target.  With a persistent target dir the
# dependencies stay compiled, but seq_io's own fingerprint is removed first so that the driver is
# guaranteed to run on the current sources (a warm fingerprint would silently skip the wrapper).
set -euo pipefail
REPO="$1"; OUT="$2"; PTGT="${3:-}"
HERE="$(cd "$(dirname "$0")/.." && pwd)"
DRV="$HERE/driver/target/release/seqio-facts"
if [ ! -x "$DRV" ] || [ "$HERE/driver/src/main.rs" -nt "$DRV" ]; then
  (cd "$HERE/driver" && CARGO_NET_OFFLINE=true cargo build --release --offline >/dev/null 2>&1) || { echo "driver build failed" >&2; exit 3; }
fi
SYSROOT="$(rustc +nightly --print sysroot)"
if [ -n "$PTGT" ]; then
  TGT="$PTGT"; mkdir -p "$TGT"
  rm -rf "$TGT"/debug/.fingerprint/seq_io-* "$TGT"/debug/incremental/seq_io-* 2>/dev/null || true
  LOG="$(mktemp /tmp/seqio-facts-log.XXXXXX)"
  trap 'rm -f "$LOG"' EXIT
else
  TGT="$(mktemp -d /tmp/seqio-facts-tgt.XXXXXX)"
  LOG="$TGT/cargo.log"
  trap 'rm -rf "$TGT"' EXIT
fi
rm -f "$OUT"
cd "$REPO"
LD_LIBRARY_PATH="$SYSROOT/lib" \
RUSTFLAGS="-Zmir-opt-level=0 -Awarnings -Coverflow-checks=off -Cdebug-assertions=off" \
RUSTC_WORKSPACE_WRAPPER="$DRV" SEQIO_FACTS_OUT="$OUT" SEQIO_FACTS_CRATE=seq_io \
CARGO_TARGET_DIR="$TGT" CARGO_NET_OFFLINE=true CARGO_INCREMENTAL=0 \
cargo +nightly check --offline --lib >"$LOG" 2>&1 || { cat "$LOG" >&2; exit 2; }
[ -s "$OUT" ] || { echo "fact file was not written (driver skipped?)" >&2; cat "$LOG" >&2; exit 2; }
