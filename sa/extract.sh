#!/bin/bash
# usage: extract.sh <repo_dir> <out.json> [extra cargo args]
# Runs the fact extractor over <repo_dir>'s library target in a fresh temporary target dir.
set -euo pipefail
REPO="$1"; OUT="$2"; shift 2
HERE="$(cd "$(dirname "$0")/.." && pwd)"
DRV="$HERE/driver/target/release/seqio-facts"
if [ ! -x "$DRV" ]; then
  (cd "$HERE/driver" && CARGO_NET_OFFLINE=true cargo build --release --offline >/dev/null 2>&1) || { echo "driver build failed" >&2; exit 3; }
fi
SYSROOT="$(rustc +nightly --print sysroot)"
TGT="$(mktemp -d /tmp/seqio-facts-tgt.XXXXXX)"
trap 'rm -rf "$TGT"' EXIT
rm -f "$OUT"
cd "$REPO"
LD_LIBRARY_PATH="$SYSROOT/lib" \
RUSTFLAGS="-Zmir-opt-level=0 -Awarnings -Coverflow-checks=off -Cdebug-assertions=off" \
RUSTC_WORKSPACE_WRAPPER="$DRV" SEQIO_FACTS_OUT="$OUT" SEQIO_FACTS_CRATE=seq_io \
CARGO_TARGET_DIR="$TGT" CARGO_NET_OFFLINE=true \
cargo +nightly check --offline --lib "$@" >"$TGT/cargo.log" 2>&1 || { cat "$TGT/cargo.log" >&2; exit 2; }
[ -s "$OUT" ] || { echo "fact file was not written" >&2; cat "$TGT/cargo.log" >&2; exit 2; }
