"""E2 core: loading of the fact file, names, CFG, dominators, loops, provenance.

Everything here is generic graph / dataflow machinery over the MIR facts written by the driver
(/verif/driver).  No rule lives in this file.
"""
import json
import re
from collections import defaultdict, deque


# --------------------------------------------------------------------------- names

def strip_generics(s):
    """`std::result::Result::<T, E>::map` -> `std::result::Result::map`;
    `<fasta::Reader<R, P> as parallel::Reader>::fill_data` keeps the `<.. as ..>` qualifier but
    loses the generic arguments inside it."""
    out = []
    depth = 0
    i = 0
    n = len(s)
    # keep a leading `<X as Y>` qualifier (depth-1 angle at position 0)
    lead = s.startswith('<')
    while i < n:
        c = s[i]
        if c == '<':
            if lead and i == 0:
                out.append(c)
                depth = 0
                i += 1
                # copy qualifier with nested generics stripped
                d = 0
                while i < n:
                    ch = s[i]
                    if ch == '<':
                        d += 1
                    elif ch == '>':
                        if d == 0:
                            out.append('>')
                            i += 1
                            break
                        d -= 1
                    elif d == 0:
                        out.append(ch)
                    i += 1
                continue
            depth += 1
        elif c == '>':
            depth -= 1
        elif depth == 0:
            out.append(c)
        i += 1
    r = ''.join(out)
    r = r.replace('::::', '::')
    while r.endswith('::'):
        r = r[:-2]
    r = re.sub(r"&'[a-z_]+ ", '&', r)
    return r


def parse_bytes_literal(s):
    """`const b"\\n"` / `b"\\r"` / `const "npos"` -> bytes, else None."""
    m = re.search(r'b?"((?:[^"\\]|\\.)*)"', s)
    if not m:
        return None
    body = m.group(1)
    out = bytearray()
    i = 0
    while i < len(body):
        c = body[i]
        if c == '\\':
            i += 1
            e = body[i]
            if e == 'n':
                out.append(10)
            elif e == 'r':
                out.append(13)
            elif e == 't':
                out.append(9)
            elif e == '0':
                out.append(0)
            elif e == 'x':
                out.append(int(body[i + 1:i + 3], 16))
                i += 2
            elif e == 'u':
                j = body.index('}', i)
                out.extend(chr(int(body[i + 2:j], 16)).encode())
                i = j
            else:
                out.append(ord(e))
        else:
            out.extend(c.encode())
        i += 1
    return bytes(out)


# --------------------------------------------------------------------------- IR wrappers

class Place:
    __slots__ = ('local', 'proj')

    def __init__(self, j):
        self.local = j['l']
        self.proj = j['p']

    def is_local(self):
        return not self.proj

    def fields(self):
        """names of the Field projections, in order"""
        return [p['name'] for p in self.proj if p['k'] == 'field']

    def key(self):
        """hashable key ignoring types"""
        parts = [self.local]
        for p in self.proj:
            k = p['k']
            if k == 'field':
                parts.append(('f', p['i']))
            elif k == 'deref':
                parts.append('*')
            elif k == 'downcast':
                parts.append(('as', p['vi']))
            elif k == 'index':
                parts.append(('idx', p['local']))
            else:
                parts.append((k,))
        return tuple(parts)

    def pretty(self, body=None):
        s = '_%d' % self.local
        if body is not None and self.local in body.names:
            s = '_%d{%s}' % (self.local, body.names[self.local])
        for p in self.proj:
            k = p['k']
            if k == 'deref':
                s = '(*%s)' % s
            elif k == 'field':
                s = '%s.%s' % (s, p['name'])
            elif k == 'downcast':
                s = '(%s as %s)' % (s, p['variant'])
            elif k == 'index':
                s = '%s[_%d]' % (s, p['local'])
            elif k == 'constindex':
                s = '%s[%s%d]' % (s, '-' if p['from_end'] else '', p['offset'])
            else:
                s = '%s.<%s>' % (s, k)
        return s


class Operand:
    __slots__ = ('k', 'place', 'j')

    def __init__(self, j):
        self.j = j
        self.k = j['k']
        self.place = Place(j['pl']) if self.k in ('copy', 'move') else None

    @property
    def is_const(self):
        return self.k == 'const'

    def const_int(self):
        if self.k == 'const' and 'int' in self.j:
            return int(self.j['int'])
        return None

    def const_bytes(self):
        if self.k == 'const':
            return parse_bytes_literal(self.j['s'])
        return None

    def const_str(self):
        return self.j.get('s') if self.k == 'const' else None

    def fn(self):
        return self.j.get('fn') if self.k == 'const' else None

    def pretty(self, body=None):
        if self.k == 'const':
            if 'promoted' in self.j:
                return 'promoted[%d]' % self.j['promoted']
            return self.j['s']
        return ('move ' if self.k == 'move' else '') + self.place.pretty(body)


class Rvalue:
    __slots__ = ('k', 'j', 'ops', 'place')

    def __init__(self, j):
        self.j = j
        self.k = j['k']
        self.place = None
        self.ops = []
        if self.k in ('use', 'repeat'):
            self.ops = [Operand(j['op'])]
        elif self.k in ('ref', 'rawptr', 'discr'):
            self.place = Place(j['pl'])
        elif self.k == 'bin':
            self.ops = [Operand(j['a']), Operand(j['b'])]
        elif self.k == 'un':
            self.ops = [Operand(j['a'])]
        elif self.k == 'cast':
            self.ops = [Operand(j['op'])]
        elif self.k == 'agg':
            self.ops = [Operand(o) for o in j['ops']]

    def pretty(self, body=None):
        k = self.k
        if k == 'use':
            return self.ops[0].pretty(body)
        if k == 'ref':
            return ('&mut ' if self.j['mut'] else '&') + self.place.pretty(body)
        if k == 'rawptr':
            return '&raw ' + self.place.pretty(body)
        if k == 'discr':
            return 'discriminant(%s)' % self.place.pretty(body)
        if k == 'bin':
            return '%s(%s, %s)' % (self.j['op'], self.ops[0].pretty(body), self.ops[1].pretty(body))
        if k == 'un':
            return '%s(%s)' % (self.j['op'], self.ops[0].pretty(body))
        if k == 'cast':
            return '%s as %s [%s]' % (self.ops[0].pretty(body), self.j['ty'], self.j['kind'])
        if k == 'agg':
            a = self.j['agg']
            if a == 'adt':
                head = '%s::%s' % (self.j['adt'], self.j['variant'])
            elif a == 'closure':
                head = 'closure %s' % self.j['closure']
            else:
                head = a
            return '%s(%s)' % (head, ', '.join(o.pretty(body) for o in self.ops))
        return '<%s %s>' % (k, self.j.get('dbg', ''))


class Stmt:
    __slots__ = ('k', 'place', 'rv', 'line', 'j')

    def __init__(self, j):
        self.j = j
        self.k = j['k']
        self.line = j.get('line')
        self.place = Place(j['pl']) if 'pl' in j else None
        self.rv = Rvalue(j['rv']) if 'rv' in j else None

    def pretty(self, body=None):
        if self.k == 'assign':
            return '%s = %s' % (self.place.pretty(body), self.rv.pretty(body))
        if self.k == 'setdiscr':
            return 'discriminant(%s) = %d' % (self.place.pretty(body), self.j['vi'])
        return '<%s>' % self.k


class Callee:
    """Resolved callee of a Call terminator."""
    __slots__ = ('j', 'path', 'name', 'trait', 'resolved', 'local', 'inst', 'targs')

    def __init__(self, j):
        self.j = j
        self.path = strip_generics(j['path'])
        self.inst = j.get('inst', '')
        self.name = j.get('name') or self.path.rsplit('::', 1)[-1]
        self.trait = strip_generics(j['trait']) if 'trait' in j else None
        self.resolved = strip_generics(j['resolved']) if 'resolved' in j else None
        self.local = j.get('local', False) or j.get('resolved_local', False)
        self.targs = j.get('targs', [])

    def target_path(self):
        """the path of the function that will actually run, when known"""
        return self.resolved or self.path

    def is_(self, *suffixes):
        """matches when the callee path or its resolution ends with one of the suffixes
        (suffix match on `::`-boundaries)"""
        for p in (self.path, self.resolved):
            if not p:
                continue
            for s in suffixes:
                if p == s or p.endswith('::' + s) or p.endswith('>::' + s):
                    return True
        return False


class Term:
    __slots__ = ('k', 'j', 'line', 'callee', 'args', 'dest', 'target', 'place', 'discr',
                 'targets', 'otherwise', 'func', 'cond')

    def __init__(self, j):
        self.j = j
        self.k = j['k']
        self.line = j.get('line')
        self.callee = None
        self.args = []
        self.dest = None
        self.target = j.get('target')
        self.place = Place(j['pl']) if 'pl' in j else None
        self.discr = None
        self.targets = []
        self.otherwise = None
        self.func = None
        self.cond = None
        if self.k == 'call':
            self.func = Operand(j['func'])
            self.args = [Operand(a) for a in j['args']]
            self.dest = Place(j['dest'])
            if 'callee' in j:
                self.callee = Callee(j['callee'])
        elif self.k == 'switch':
            self.discr = Operand(j['discr'])
            self.targets = [(int(v), t) for v, t in j['targets']]
            self.otherwise = j['otherwise']
        elif self.k == 'assert':
            self.cond = Operand(j['cond'])

    def succs(self, unwind=False):
        k = self.k
        out = []
        if k == 'goto':
            out = [self.j['target']]
        elif k == 'switch':
            out = [t for _, t in self.targets] + [self.otherwise]
        elif k in ('drop', 'assert'):
            out = [self.j['target']]
        elif k == 'call':
            if self.target is not None:
                out = [self.target]
        if unwind and self.j.get('unwind') is not None:
            out.append(self.j['unwind'])
        # dedupe, keep order
        seen = []
        for o in out:
            if o not in seen:
                seen.append(o)
        return seen

    def pretty(self, body=None):
        k = self.k
        if k == 'goto':
            return 'goto bb%d' % self.j['target']
        if k == 'switch':
            return 'switch %s [%s, otherwise bb%d]' % (
                self.discr.pretty(body),
                ', '.join('%d: bb%d' % (v, t) for v, t in self.targets), self.otherwise)
        if k == 'return':
            return 'return'
        if k == 'drop':
            return 'drop(%s) -> bb%d' % (self.place.pretty(body), self.j['target'])
        if k == 'call':
            name = self.callee.path if self.callee else self.func.pretty(body)
            if self.callee and self.callee.resolved and self.callee.resolved != self.callee.path:
                name += ' [=> %s]' % self.callee.resolved
            return '%s = %s(%s) -> %s' % (
                self.dest.pretty(body), name, ', '.join(a.pretty(body) for a in self.args),
                'bb%d' % self.target if self.target is not None else '!')
        if k == 'assert':
            return 'assert(%s == %s) -> bb%d' % (self.cond.pretty(body), self.j['expected'], self.j['target'])
        return k


class Block:
    __slots__ = ('idx', 'stmts', 'term', 'cleanup')

    def __init__(self, idx, j):
        self.idx = idx
        self.cleanup = j['cleanup']
        self.stmts = [Stmt(s) for s in j['stmts']]
        self.term = Term(j['term'])


class Body:
    def __init__(self, path, j, meta=None, promoted_of=None, promoted_idx=None):
        self.path = path               # generic def path as printed by rustc
        self.key = strip_generics(path)
        self.meta = meta or {}
        self.j = j
        self.arg_count = j['arg_count']
        self.local_tys = [l['ty'] for l in j['locals']]
        self.blocks = [Block(i, b) for i, b in enumerate(j['blocks'])]
        self.span = j['span']
        self.file = self.span['file']
        self.promoted = []
        self.promoted_of = promoted_of
        self.promoted_idx = promoted_idx
        # names of locals from var_debug_info (plain locals only) and captured upvars
        self.names = {}
        self.debug = []
        for d in j['dbg']:
            v = d['val']
            if 'l' in v:
                pl = Place(v)
                self.debug.append((d['name'], pl))
                if pl.is_local():
                    self.names.setdefault(pl.local, d['name'])
        self._cfg = None

    # ---- basic graph (no unwind edges, no cleanup blocks)
    def succs(self, b):
        return self.blocks[b].term.succs()

    @property
    def cfg(self):
        if self._cfg is None:
            self._cfg = CFG(self)
        return self._cfg

    def loc(self, line):
        return '%s:%s' % (self.file, line)

    def calls(self):
        """yield (block index, Term) for every call on the non-cleanup graph"""
        for b in self.cfg.reachable:
            t = self.blocks[b].term
            if t.k == 'call':
                yield b, t

    def pretty(self):
        out = ['fn %s  [%s:%d-%d]' % (self.path, self.file, self.span['lo'], self.span['hi'])]
        for i, ty in enumerate(self.local_tys):
            nm = self.names.get(i)
            out.append('    let _%d: %s%s' % (i, ty, '   // ' + nm if nm else ''))
        for name, pl in self.debug:
            if not pl.is_local():
                out.append('    debug %s => %s' % (name, pl.pretty()))
        for b in self.blocks:
            out.append('  bb%d%s:' % (b.idx, ' (cleanup)' if b.cleanup else ''))
            for s in b.stmts:
                out.append('      %-70s // L%s' % (s.pretty(self), s.line))
            out.append('      %-70s // L%s' % (b.term.pretty(self), b.term.line))
        return '\n'.join(out)


class CFG:
    """Control-flow graph over the normal (non-unwind) edges."""

    def __init__(self, body):
        self.body = body
        n = len(body.blocks)
        self.succ = {i: body.blocks[i].term.succs() for i in range(n)}
        # reachable from entry
        seen = {0}
        dq = deque([0])
        order = []
        while dq:
            b = dq.popleft()
            order.append(b)
            for s in self.succ[b]:
                if s not in seen:
                    seen.add(s)
                    dq.append(s)
        self.reachable = order
        self.rset = seen
        self.pred = defaultdict(list)
        for b in order:
            for s in self.succ[b]:
                self.pred[s].append(b)
        self.exits = [b for b in order if body.blocks[b].term.k == 'return']
        self._dom = None
        self._pdom = None

    # ---- dominators (iterative, sets; bodies are small)
    def _dominators(self, entry_nodes, succ, pred, nodes):
        dom = {n: set(nodes) for n in nodes}
        for e in entry_nodes:
            dom[e] = {e}
        changed = True
        while changed:
            changed = False
            for n in nodes:
                if n in entry_nodes:
                    continue
                ps = [dom[p] for p in pred[n] if p in dom]
                new = set.intersection(*ps) if ps else set()
                new = new | {n}
                if new != dom[n]:
                    dom[n] = new
                    changed = True
        return dom

    @property
    def dom(self):
        if self._dom is None:
            self._dom = self._dominators({0}, self.succ, self.pred, self.reachable)
        return self._dom

    @property
    def pdom(self):
        """post-dominators w.r.t. a virtual exit joining all `return` blocks.  Blocks that cannot
        reach a return (diverging) post-dominate nothing useful; they get themselves only."""
        if self._pdom is None:
            EXIT = -1
            nodes = [EXIT] + [b for b in self.reachable]
            rsucc = defaultdict(list)   # reversed graph: succ in reversed = pred in original
            rpred = defaultdict(list)
            for b in self.reachable:
                for s in self.succ[b]:
                    rsucc[s].append(b)
                    rpred[b].append(s)
            for e in self.exits:
                rsucc[EXIT].append(e)
                rpred[e].append(EXIT)
            # restrict to nodes that can reach EXIT
            can = {EXIT}
            dq = deque([EXIT])
            while dq:
                x = dq.popleft()
                for y in rsucc[x]:
                    if y not in can:
                        can.add(y)
                        dq.append(y)
            nodes = [n for n in nodes if n in can]
            rp = {n: [p for p in rpred[n] if p in can] for n in nodes}
            self._pdom = self._dominators({EXIT}, rsucc, rp, nodes)
            self._can_exit = can
        return self._pdom

    def dominates(self, a, b):
        return a in self.dom.get(b, ())

    def postdominates(self, a, b):
        return a in self.pdom.get(b, ())

    def reach_from(self, start, removed=(), include_start=False):
        """blocks reachable from `start` by >=1 edge (or 0 with include_start) without entering
        `removed` blocks"""
        removed = set(removed)
        seen = set()
        dq = deque()
        if include_start:
            if start not in removed:
                seen.add(start)
                dq.append(start)
        else:
            for s in self.succ[start]:
                if s not in removed and s not in seen:
                    seen.add(s)
                    dq.append(s)
        while dq:
            b = dq.popleft()
            for s in self.succ[b]:
                if s not in removed and s not in seen:
                    seen.add(s)
                    dq.append(s)
        return seen

    def back_edges(self):
        return [(a, b) for a in self.reachable for b in self.succ[a] if self.dominates(b, a)]

    def natural_loops(self):
        """header -> set of blocks"""
        loops = defaultdict(set)
        for a, h in self.back_edges():
            body = {h, a}
            st = [a]
            while st:
                x = st.pop()
                if x == h:
                    continue
                for p in self.pred[x]:
                    if p not in body:
                        body.add(p)
                        st.append(p)
            loops[h] |= body
        return dict(loops)

    def control_deps(self):
        """block -> set of (branch block, successor taken) it is control dependent on
        (Ferrante et al.: b is control dependent on edge (a -> s) iff b post-dominates s and does
        not strictly post-dominate a)."""
        cd = defaultdict(set)
        pdom = self.pdom
        for a in self.reachable:
            ss = self.succ[a]
            if len(ss) < 2:
                continue
            for s in ss:
                if s not in pdom:
                    continue
                for b in pdom[s]:
                    if b == -1:
                        continue
                    if b == a or b not in pdom.get(a, ()):  # b does not strictly postdominate a
                        cd[b].add((a, s))
                    # note: when b == a (loop header) it is control dependent on itself
        return cd


# --------------------------------------------------------------------------- program

class Program:
    def __init__(self, facts):
        self.facts = facts
        self.bodies = {}
        self.by_key = defaultdict(list)
        for bj in facts['bodies']:
            meta = {k: v for k, v in bj.items() if k not in ('body', 'promoted')}
            body = Body(bj['path'], bj['body'], meta)
            for i, pj in enumerate(bj['promoted']):
                body.promoted.append(Body('%s::promoted[%d]' % (bj['path'], i), pj, {}, body, i))
            self.bodies[bj['path']] = body
            self.by_key[body.key].append(body)
        self.adts = {strip_generics(a['path']): a for a in facts['adts']}
        self.impls = facts['impls']

    @classmethod
    def load(cls, path):
        with open(path) as f:
            return cls(json.load(f))

    def get(self, key):
        """body by generics-stripped path (unique), e.g. `fasta::Reader::next`"""
        l = self.by_key.get(key, [])
        if len(l) == 1:
            return l[0]
        if not l:
            raise KeyError('no body %r' % key)
        raise KeyError('ambiguous body %r: %s' % (key, [b.path for b in l]))

    def find(self, pred):
        return [b for b in self.bodies.values() if pred(b)]

    def closures_of(self, body):
        """closures whose parent chain starts at `body` (direct children)"""
        return [b for b in self.bodies.values()
                if b.meta.get('kind') == 'Closure' and b.meta.get('parent') == body.path]

    def closure_by_path(self, path):
        return self.bodies.get(path)

    def local_callee_body(self, callee):
        """the crate-local Body a Callee resolves to, if any"""
        if callee is None:
            return None
        for p in (callee.j.get('resolved'), callee.j.get('path')):
            if p and p in self.bodies:
                return self.bodies[p]
        # generic paths: match by stripped key
        for p in (callee.resolved, callee.path):
            if p and p in self.by_key and len(self.by_key[p]) == 1:
                return self.by_key[p][0]
        return None

    def call_graph(self):
        """body.path -> set of local callee body paths (closures constructed in a body count as
        callees of it, since they run on its behalf)"""
        g = defaultdict(set)
        for b in self.bodies.values():
            for _, t in b.calls():
                cb = self.local_callee_body(t.callee)
                if cb is not None:
                    g[b.path].add(cb.path)
            for blk in b.blocks:
                for s in blk.stmts:
                    if s.k == 'assign' and s.rv.k == 'agg' and s.rv.j.get('agg') == 'closure':
                        g[b.path].add(s.rv.j['closure'])
                # closures passed as ZST constants
                ops = []
                if blk.term.k == 'call':
                    ops = blk.term.args
                for o in ops:
                    if o.is_const and 'closure' in o.j:
                        g[b.path].add(o.j['closure'])
        return g

    def reachable_from(self, roots):
        g = self.call_graph()
        seen = set()
        st = [r.path if isinstance(r, Body) else r for r in roots]
        while st:
            x = st.pop()
            if x in seen:
                continue
            seen.add(x)
            st.extend(g.get(x, ()))
        return seen


# --------------------------------------------------------------------------- def-use / provenance

class DefUse:
    """Flow-insensitive definitions of whole locals (MIR temporaries are almost always assigned
    once; user variables may be assigned several times — all definitions are returned)."""

    def __init__(self, body):
        self.body = body
        self.defs = defaultdict(list)   # local -> [(block, idx|'term', kind, payload)]
        for b in body.cfg.reachable:
            blk = body.blocks[b]
            for i, s in enumerate(blk.stmts):
                if s.k == 'assign':
                    self.defs[s.place.local].append((b, i, 'assign', s))
            t = blk.term
            if t.k == 'call':
                self.defs[t.dest.local].append((b, 'term', 'call', t))

    def whole_defs(self, local):
        """definitions that assign the whole local (no projection)"""
        out = []
        for d in self.defs.get(local, []):
            pl = d[3].place if d[2] == 'assign' else d[3].dest
            if pl.is_local():
                out.append(d)
        return out


# calls whose result is (a payload of) one of their arguments.
#   callee path -> list of (argidx, mode); mode:
#     'wrap:V'      result        = payload V of arg          (unwrap / expect / flatten)
#     'same'        result        = arg                        (identity)
#     'variant:A>B' result's payload of variant A = arg's payload of variant B   (Result::ok ...)
#     'alt'         result may be arg itself (unwrap_or default value)
PAYLOAD_CALLS = {
    'std::result::Result::unwrap': [(0, 'wrap:Ok')],
    'std::result::Result::expect': [(0, 'wrap:Ok')],
    'std::result::Result::unwrap_or': [(0, 'wrap:Ok'), (1, 'same')],
    'std::result::Result::unwrap_or_default': [(0, 'wrap:Ok')],
    'std::option::Option::unwrap': [(0, 'wrap:Some')],
    'std::option::Option::expect': [(0, 'wrap:Some')],
    'std::option::Option::unwrap_or': [(0, 'wrap:Some'), (1, 'same')],
    'std::option::Option::unwrap_or_default': [(0, 'wrap:Some')],
    'std::option::Option::flatten': [(0, 'wrap:Some')],
    'std::result::Result::ok': [(0, 'variant:Some>Ok')],
    'std::result::Result::err': [(0, 'variant:Some>Err')],
    'std::option::Option::ok_or': [(0, 'variant:Ok>Some'), (1, 'variant:Err>')],
    'std::option::Option::take': [(0, 'same')],
    'std::option::Option::as_ref': [(0, 'same')],
    'std::option::Option::as_mut': [(0, 'same')],
    'std::result::Result::as_ref': [(0, 'same')],
    'std::result::Result::as_mut': [(0, 'same')],
    'std::clone::Clone::clone': [(0, 'same')],
    'std::option::Option::cloned': [(0, 'same')],
    'std::option::Option::copied': [(0, 'same')],
    'std::borrow::ToOwned::to_owned': [(0, 'same')],
}


def _proj_suffix(pl):
    """field selections of a place as a list of (index, name, variant-or-None)"""
    out = []
    variant = None
    for p in pl.proj:
        k = p['k']
        if k == 'downcast':
            variant = p['variant']
        elif k == 'field':
            out.append((p['i'], p['name'], variant))
            variant = None
        elif k in ('index', 'constindex', 'subslice'):
            out.append(('[]', '[]', None))
            variant = None
    return out


def roots_of(body, operand_or_place, du=None, max_depth=80, through_calls=None, payload_calls=True, suffix0=()):
    """Backward provenance of a value: follows copies/moves, casts, re-borrows, derefs and
    field/payload projections back to *root* events.  A root is a tuple whose last element is the
    *suffix*: the field selections (index, name, variant) still to be applied to the root value.
      ('call', Term, block, suffix)      value produced by a call (callee in Term)
      ('arg', local_index, suffix)       parameter of the function (suffix = fields of it)
      ('const', Operand, suffix)
      ('agg', Stmt, suffix)              aggregate construction (suffix empty or unresolvable)
      ('bin'|'un'|'discr'|'other', Stmt, suffix)
      ('undef', Place, suffix)
    `through_calls`: optional function(Callee) -> index of the argument the result is derived
    from (identity-like calls such as Deref::deref); provenance continues through it."""
    du = du or DefUse(body)
    out = []
    seen = set()

    def visit_local(loc, suffix, depth):
        key = (loc, tuple(suffix))
        if key in seen or depth > max_depth:
            return
        seen.add(key)
        if loc != 0 and loc <= body.arg_count:
            out.append(('arg', loc, tuple(suffix)))
            return
        defs = du.defs.get(loc, [])
        if not defs:
            out.append(('undef', Place({'l': loc, 'p': []}), tuple(suffix)))
            return
        # definitions of a projection of the local that is a prefix of the suffix win
        chosen = []
        for d in defs:
            dpl = d[3].place if d[2] == 'assign' else d[3].dest
            if dpl.is_local():
                continue
            dsuf = _proj_suffix(dpl)
            if dsuf and len(dsuf) <= len(suffix) and all(
                    a[0] == b_[0] for a, b_ in zip(dsuf, suffix)):
                chosen.append((d, list(suffix[len(dsuf):])))
        if not chosen:
            chosen = [(d, list(suffix)) for d in defs
                      if (d[3].place if d[2] == 'assign' else d[3].dest).is_local()]
        if not chosen:
            # only partial definitions that do not match the suffix: value is composite
            out.append(('other', defs[0][3], tuple(suffix)))
            return
        for d, suf in chosen:
            if d[2] == 'call':
                t = d[3]
                idx = through_calls(t.callee) if (through_calls and t.callee) else None
                if idx is not None and idx < len(t.args):
                    visit_operand(t.args[idx], suf, depth + 1)
                elif (t.callee and t.callee.path == 'std::ops::Try::branch' and suf
                      and suf[0][2] == 'Continue' and t.callee.resolved):
                    # `x?` : the Continue payload is the Ok/Some payload of x
                    v = 'Ok' if 'Result' in t.callee.resolved else 'Some'
                    visit_operand(t.args[0], [(0, '0', v)] + list(suf[1:]), depth + 1)
                elif payload_calls and t.callee and t.callee.path in PAYLOAD_CALLS:
                    handled = False
                    for argidx, mode in PAYLOAD_CALLS[t.callee.path]:
                        if argidx >= len(t.args):
                            continue
                        if mode == 'same':
                            visit_operand(t.args[argidx], suf, depth + 1)
                            handled = True
                        elif mode.startswith('wrap:'):
                            visit_operand(t.args[argidx], [(0, '0', mode[5:])] + list(suf), depth + 1)
                            handled = True
                        elif mode.startswith('variant:'):
                            a, b_ = mode[8:].split('>')
                            if suf and suf[0][2] == a:
                                if b_:
                                    visit_operand(t.args[argidx], [(0, '0', b_)] + list(suf[1:]), depth + 1)
                                else:
                                    visit_operand(t.args[argidx], list(suf[1:]), depth + 1)
                                handled = True
                    if not handled:
                        out.append(('call', t, d[0], tuple(suf)))
                else:
                    out.append(('call', t, d[0], tuple(suf)))
                continue
            s = d[3]
            rv = s.rv
            if rv.k in ('use', 'cast'):
                visit_operand(rv.ops[0], suf, depth + 1)
            elif rv.k in ('ref', 'rawptr'):
                visit_place(rv.place, suf, depth + 1)
            elif rv.k == 'agg':
                a = rv.j.get('agg')
                if suf and a in ('tuple', 'adt', 'closure') and suf[0][0] != '[]':
                    i, _nm, variant = suf[0]
                    if a == 'adt' and variant is not None and variant != rv.j.get('variant'):
                        continue    # payload of another variant: this definition does not supply it
                    if i < len(rv.ops):
                        visit_operand(rv.ops[i], suf[1:], depth + 1)
                        continue
                out.append(('agg', s, tuple(suf)))
            elif rv.k in ('bin', 'un', 'discr'):
                out.append((rv.k, s, tuple(suf)))
            else:
                out.append(('other', s, tuple(suf)))

    def visit_place(pl, suffix, depth):
        visit_local(pl.local, _proj_suffix(pl) + list(suffix), depth)

    def visit_operand(op, suffix, depth):
        if op.is_const:
            out.append(('const', op, tuple(suffix)))
        else:
            visit_place(op.place, suffix, depth)

    if isinstance(operand_or_place, Operand):
        visit_operand(operand_or_place, list(suffix0), 0)
    else:
        visit_place(operand_or_place, list(suffix0), 0)
    return out


def data_deps(body, operand_or_place, du=None, max_nodes=4000):
    """Transitive data dependence: every root event AND every intermediate computation feeding
    the value (through bin/un/agg/call arguments too).  Returns the set of roots as produced by
    `roots_of`, but continuing through bin/un/agg operands and call arguments."""
    du = du or DefUse(body)
    result = []
    seen_s = set()
    work = [operand_or_place]
    n = 0
    while work and n < max_nodes:
        x = work.pop()
        n += 1
        for r in roots_of(body, x, du):
            kind = r[0]
            if kind in ('bin', 'un', 'agg', 'other', 'discr'):
                s = r[1]
                if id(s) in seen_s:
                    continue
                seen_s.add(id(s))
                result.append(r)
                if kind == 'discr':
                    work.append(s.rv.place)
                elif s.k == 'assign':
                    work.extend(s.rv.ops)
                    if s.rv.place is not None:
                        work.append(s.rv.place)
            elif kind == 'call':
                t = r[1]
                if id(t) in seen_s:
                    continue
                seen_s.add(id(t))
                result.append(r)
                work.extend(t.args)
            else:
                result.append(r)
    return result
