"""TRIM-*, SPLIT-LF, LEN-1, SPLIT-1, VIEW-*, ITER-*, EPOS-*, SER-* (DESIGN appendix A.5)
— properties C12, C13, C17, C19, C20 and clauses of C01, C02."""
import re
from flow import *
from mir import roots_of, data_deps, DefUse, Place, Operand, strip_generics
from rules_par import find_call, unwrap_aggs, closure_of_arg
from rules_err import is_derive

SLICE_INDEX = ('std::ops::Index::index', 'std::ops::IndexMut::index_mut')


def index_through(callee):
    """slicing / deref are transparent for 'which buffer does this slice come from'"""
    if callee is None:
        return None
    if callee.path in SLICE_INDEX or callee.path in IDENTITY_CALLS:
        return 0
    return None


def mentions_cr(prog, b):
    """the body (or one of its promoted constants) compares with / names the byte 13 and no other byte constant"""
    ints = set()
    bytestr = set()
    for bb in [b] + [x for x in b.promoted if x is not None]:
        for blk in bb.blocks:
            if blk.term.k == 'switch':
                ints |= set(v for v, _ in blk.term.targets if 9 <= v < 256)
            ops = []
            for st in blk.stmts:
                if st.k == 'assign':
                    ops += st.rv.ops
            if blk.term.k == 'call':
                ops += blk.term.args
            for o in ops:
                if o.is_const:
                    bs = o.const_bytes()
                    if bs is not None and len(bs) <= 2:
                        bytestr.add(bytes(bs))
                    elif o.const_int() is not None and 9 <= o.const_int() < 256 and 'u8' in (o.j.get('ty') or 'u8'):
                        ints.add(o.const_int())
    return (13 in ints or b'\r' in bytestr) and not (ints - {13}) and not (bytestr - {b'\r'})


def trimmers(prog):
    """the CR trimmer: a small crate function &[u8] -> &[u8] that returns its argument or a part of it and
    mentions the byte CR and no other byte (found by what it does, not by its name or idiom: split_last +
    match, strip_suffix(b"\r"), a slice pattern `[rest @ .., b'\r']` ...)"""
    out = []
    for b in prog.bodies.values():
        if b.meta.get('kind') not in ('Fn', 'AssocFn') or b.arg_count < 1 or b.arg_count > 3 or len(b.blocks) > 20:
            continue
        if not (is_u8_slice_ref(b.local_tys[0]) and is_u8_slice_ref(b.local_tys[1])):
            continue
        if not all(b.local_tys[i] == 'usize' for i in range(2, b.arg_count + 1)):
            continue      # (a trimming helper may take the bounds of the line as well: `line(buffer, start, end)`)
        if mentions_cr(prog, b):
            out.append(b)
    return out


def trimmer_is_exact(b):
    """True: returns the input minus one trailing CR, or the input (split_last idiom, fully understood);
    None: another idiom (strip_suffix, slice pattern): the result only depends on the argument - not judged further"""
    rs = roots_of(b, Place({'l': 0, 'p': []}))
    ok = True
    for r in rs:
        if r[0] == 'arg' and r[1] == 1 and not r[-1]:
            continue
        if r[0] == 'call' and r[1].callee.is_('slice::split_last', 'core::slice::split_last'):
            sel = [x[1] for x in r[-1]]
            if sel == ['0', '1']:      # Some((last, remaining)).1
                a = roots_of(b, r[1].args[0])
                if all(q[0] == 'arg' and q[1] == 1 for q in a):
                    continue
        ok = False
    if ok and bool(rs):
        return True
    deps = data_deps(b, Place({'l': 0, 'p': []}))
    if deps and all(d[0] in ('const', 'call', 'bin', 'un', 'other', 'agg', 'discr') or (d[0] == 'arg' and d[1] == 1) for d in deps) and any(d[0] == 'arg' for d in deps):
        return None
    return False


def is_u8_slice_ref(ty):
    return re.sub(r"'\w+ ", '', ty).replace(' ', '') in ('&[u8]',)


GOOD_SITES = set()   # paths of the functions that hand out a CR-trimmed line (filled by TRIM-1, used by EPOS-3)
UNDECIDED_SITES = set()   # line sites whose bounds are computed by a private function (no verdict from TRIM-1)


def run(prog, R):
    R.rule('TRIM-1', 'every function that yields a line of the buffer (&[u8] obtained by slicing) returns the result of the CR trimmer (or a constant); the RefRecord accessors delegate to such functions')
    R.rule('TRIM-2', 'an emptiness test on a line split from the buffer is CR-aware (applied to a trimmed value, or accompanied by a comparison with b"\\r")')
    R.rule('SPLIT-LF', 'every memchr / slice::split on buffer data splits on LF (0x0A) only')
    R.rule('LEN-1', 'the branch that reports UnequalLengths{seq, qual} is decided on the quantities it reports (the CR-trimmed lengths)')
    R.rule('SPLIT-1', 'id/description: the id is split(/splitn) at the first space (0x20) and the description is the second piece of splitn(2, space); id()/desc() delegate to id_bytes()/desc_bytes()')
    R.rule('VIEW-1', 'SeqLines::next and next_back apply the same mapping to the offsets they take from the same inner iterator')
    R.rule('VIEW-2', 'full_seq borrows exactly under "number of lines == 1" and copies otherwise')
    R.rule('VIEW-3', 'owned conversions fill head/seq/qual from the accessors of the same name; owned_seq concatenates the line iterator')
    R.rule('ITER-1', 'a length reported by an iterator of the crate (size_hint / len) is recomputed from live iterator state')
    R.rule('ITER-2', 'the iterators of the crate wrap std slice iterators (and zip/skip/take of them) or a reader, and their next() is that of the wrapped iterator')
    R.rule('EPOS-1', 'line offset and id switch per error kind: InvalidStart (0, no id), InvalidSep (2, id), UnequalLengths (0, id), UnexpectedEnd (index of the part where the search stopped, id iff beyond the header)')
    R.rule('EPOS-2', 'the reported byte `found` is the very byte that was compared with the expected marker')
    R.rule('EPOS-3', 'UnequalLengths reports len(seq accessor) as seq and len(qual accessor) as qual')
    R.rule('EPOS-4', 'Display of the errors formats every field of every variant')
    R.rule('EPOS-5', 'the id is extracted only when the header line is non-empty, and from the header by the id split')
    R.rule('UNIT-4', 'the reported line is the file line counter plus the per-kind constant')
    R.rule('SER-1', 'derived Serialize names every declared field once and derived Deserialize accepts exactly those names')
    R.rule('SER-3', 'derived PartialEq of the owned records compares every field')

    T = sorted(trimmers(prog), key=lambda t_: (t_.arg_count, t_.key))
    if len(T) > 1:
        # several functions trim CR (e.g. trim_cr and a `line(buffer, a, b)` helper): all of them count
        R.add('TRIM-1', T[0], 'trimmers', True, site(T[0], T[0].span['lo']), 'CR-trimming functions: %s' % [t_.key for t_ in T])
    if len(T) < 1:
        R.anchor_missing('TRIM-1', 'exactly one CR trimmer (found %d)' % len(T))
        trimmer = None
    else:
        trimmer = T[0]
        ex = trimmer_is_exact(trimmer)
        if ex is False and trimmer.arg_count > 1:
            ex = None      # a trimming helper with bounds (`line(buffer, a, b)`): it cuts and trims; the cut is judged elsewhere
        R.add('TRIM-1', trimmer, 'trimmer-removes-one-trailing-cr', ex is not False, site(trimmer, trimmer.span['lo']),
              'returns the input or the input without its last byte when that byte is CR' if ex else 'returns a part of its argument chosen by a test for CR (idiom not analysed further)', undecided=ex is None)

    def is_trim_call(t):
        return t.callee is not None and trimmer is not None and any(prog.local_callee_body(t.callee) is t_ for t_ in T)

    # ---------------------------------------------------------------- TRIM-1
    # GOOD = functions whose returned byte slice is the trimmer's result, a constant, or the result of a GOOD
    # function (fixpoint: accessors may go through any number of private helpers)
    def ret_roots(b):
        opt_ret = re.sub(r"'\w+ ", '', b.local_tys[0]).replace(' ', '') == 'std::option::Option<&[u8]>'
        rs = roots_of(b, Place({'l': 0, 'p': []}), suffix0=((0, '0', 'Some'),) if opt_ret else ())
        if opt_ret:
            rs = [r for r in rs if not (r[0] == 'call' and r[1].callee and r[1].callee.path == 'std::ops::FromResidual::from_residual')]
        return rs
    cands = {}
    for b in prog.bodies.values():
        if is_derive(b) or not (b.file.endswith('fasta.rs') or b.file.endswith('fastq.rs') or b.file.endswith('lib.rs')):
            continue
        opt_ret = re.sub(r"'\w+ ", '', b.local_tys[0]).replace(' ', '') == 'std::option::Option<&[u8]>'
        if not is_u8_slice_ref(b.local_tys[0]) and not opt_ret:
            continue
        cands[b.path] = (b, ret_roots(b))
    good = GOOD_SITES
    good.clear()
    UNDECIDED_SITES.clear()
    for t_ in T:
        good.add(t_.path)      # a trimming function hands out a trimmed line by definition
    changed = True
    while changed:
        changed = False
        for pth, (b, rs) in cands.items():
            if pth in good or not rs:
                continue
            if all(r[0] == 'const' or (r[0] == 'call' and not r[-1] and (is_trim_call(r[1]) or (prog.local_callee_body(r[1].callee) is not None and prog.local_callee_body(r[1].callee).path in good))) for r in rs):
                good.add(pth)
                changed = True
    # which of them hand their slice to the user: public functions / trait methods, closures inside them, and private
    # functions whose result one of those returns (a private `raw()` used only to write the record back is not a line)
    handed = set()
    for pth, (b, rs) in cands.items():
        if str(b.meta.get('vis')) == 'Public' or b.meta.get('impl_trait'):
            handed.add(pth)
    grew = True
    while grew:
        grew = False
        for pth, (b, rs) in cands.items():
            if pth in handed:
                continue
            parent = b.key.split('::{closure')[0]
            pb = [q for q in prog.bodies.values() if q.key == parent and q.promoted_of is None] if '{closure' in b.key else []
            if any(str(q.meta.get('vis')) == 'Public' or q.meta.get('impl_trait') or q.path in handed for q in pb):
                handed.add(pth)
                grew = True
                continue
            for hp in list(handed):
                if hp in cands and any(r[0] == 'call' and prog.local_callee_body(r[1].callee) is b for r in cands[hp][1]):
                    handed.add(pth)
                    grew = True
                    break
    line_sites = []
    for pth, (b, rs) in sorted(cands.items()):
        if pth not in handed and pth not in good:
            continue
        slices = [(x, t) for x, t in b.calls() if t.callee and t.callee.path in SLICE_INDEX and 'Range' in ' '.join(t.callee.targs + [b.local_tys[t.args[1].place.local] if not t.args[1].is_const else ''])
                  and 'RangeFull' not in ' '.join(t.callee.targs)
                  # a piece cut out of data, not of a literal (`&b" "[..]`)
                  and not (roots_of(b, t.args[0]) and all(r[0] in ('const', 'promoted') for r in roots_of(b, t.args[0])))
                  # ... and not out of a line that is trimmed already (`&self.head()[..i]`: the id is a piece of the header line)
                  and not (roots_of(b, t.args[0], through_calls=identity_through) and all(
                      r[0] == 'call' and r[1].callee is not None and ((prog.local_callee_body(r[1].callee) is not None and prog.local_callee_body(r[1].callee).path in good)
                                                                       or (r[1].callee.trait is not None and r[1].callee.name in ('head', 'qual') and 'Record' in (r[1].callee.path or '')))
                      for r in roots_of(b, t.args[0], through_calls=identity_through)))]
        if not slices:
            continue
        line_sites.append(b)
        # the bounds of the piece come from a private function (`&buffer[self.head_range(buffer)]`): whether the carriage
        # return is left out is decided there, in a form (a range, a pair of offsets) this rule does not follow
        helper_bounds = pth not in good and any(
            any(r[0] == 'call' and prog.local_callee_body(r[1].callee) is not None for r in roots_of(b, t.args[1]))
            for _, t in slices if not t.args[1].is_const)
        if helper_bounds:
            UNDECIDED_SITES.add(pth)
        R.add('TRIM-1', b, 'line-site', pth in good, site(b, b.span['lo']),
              'returned slice <- %s%s' % ([(r[1].callee.target_path() if r[0] == 'call' else r[0]) for r in rs],
                                          ' (bounds computed by a private function: not judged)' if helper_bounds else ''), undecided=trimmer is None or helper_bounds)
    site_paths = set(b.path for b in line_sites)
    # accessors of the borrowed records hand out trimmed lines (directly or through helpers)
    for b in prog.bodies.values():
        m = re.match(r'<(fasta|fastq)::RefRecord as (fasta|fastq)::Record>::(head|seq|qual)$', b.key)
        if not m or b.path in site_paths:
            continue
        rs = cands.get(b.path, (b, []))[1]
        via_undecided = b.path not in good and bool(rs) and all(r[0] == 'const' or (r[0] == 'call' and prog.local_callee_body(r[1].callee) is not None and
                                                                 (prog.local_callee_body(r[1].callee).path in good or prog.local_callee_body(r[1].callee).path in UNDECIDED_SITES)) for r in rs)
        R.add('TRIM-1', b, 'accessor-delegates', b.path in good, site(b, b.span['lo']),
              'returned slice <- %s' % [(r[1].callee.target_path() if r[0] == 'call' else r[0]) for r in rs], undecided=trimmer is None or via_undecided)
    R.floor('TRIM-1', 11)

    # ---------------------------------------------------------------- TRIM-2
    n = 0
    for b in prog.bodies.values():
        if is_derive(b) or not (b.file.endswith('fasta.rs') or b.file.endswith('fastq.rs')):
            continue
        if not ('::Reader::' in b.key):
            continue
        du = DefUse(b)
        for x, t in b.calls():
            if not (t.callee and t.callee.is_('slice::is_empty', 'core::slice::is_empty')):
                continue
            rs = roots_of(b, t.args[0], du)
            trimmed = bool(rs) and all(r[0] == 'call' and is_trim_call(r[1]) for r in rs)
            cr_cmp = False
            if not trimmed:
                # same value compared with b"\r" somewhere in this function
                base = set(id(r[1]) for r in rs if r[0] in ('call',)) | set((r[0], r[1]) for r in rs if r[0] == 'arg')
                for y, t2 in b.calls():
                    if t2.callee and t2.callee.path in ('std::cmp::PartialEq::eq', 'std::cmp::PartialEq::ne'):
                        for i in (0, 1):
                            c = resolve_const_operand(b, t2.args[1 - i], du)
                            if c and c[0] == 'bytes' and c[1] == b'\r':
                                rs2 = roots_of(b, t2.args[i], du)
                                base2 = set(id(r[1]) for r in rs2 if r[0] in ('call',)) | set((r[0], r[1]) for r in rs2 if r[0] == 'arg')
                                if base and base == base2:
                                    cr_cmp = True
            n += 1
            R.add('TRIM-2', b, 'emptiness-test#%d' % n, trimmed or cr_cmp, site(b, t.line),
                  'is_empty() on %s' % ('a trimmed line' if trimmed else 'a raw line %s a comparison with b"\\r"' % ('accompanied by' if cr_cmp else 'WITHOUT')))
    # byte-level blank tests (`.all(|c| *c == b'\n')`) must know CR as well
    for b in prog.bodies.values():
        if is_derive(b) or not (b.file.endswith('fasta.rs') or b.file.endswith('fastq.rs')) or '::Reader::' not in b.key:
            continue
        for x, t in b.calls():
            if t.callee and t.callee.path in ('std::iter::Iterator::all', 'std::iter::Iterator::any') and len(t.args) == 2:
                cb = closure_of_arg(prog, b, t, 1)
                if cb is None:
                    continue
                consts = set()
                for blk in cb.blocks:
                    for st in blk.stmts:
                        if st.k == 'assign' and st.rv.k == 'bin' and st.rv.j['op'] in ('Eq', 'Ne'):
                            for o in st.rv.ops:
                                if o.const_int() is not None:
                                    consts.add(o.const_int())
                    tt = blk.term
                    if tt.k == 'switch':
                        consts |= set(v for v, _ in tt.targets if v in (10, 13))
                if 10 in consts:
                    n += 1
                    R.add('TRIM-2', b, 'byte-level-blank-test#%d' % n, 13 in consts, site(b, t.line),
                          'a test over the bytes of the buffer treats LF as blank %s CR' % ('and also' if 13 in consts else 'but NOT'))
    R.floor('TRIM-2', 2)

    # ---------------------------------------------------------------- SPLIT-LF
    cl = Closures(prog)
    for b in prog.bodies.values():
        if is_derive(b) or not (b.file.endswith('fasta.rs') or b.file.endswith('fastq.rs')):
            continue
        for x, t in b.calls():
            c = t.callee
            if not c:
                continue
            tp = c.target_path()
            if tp.startswith('memchr::') and c.name in ('memchr', 'new', 'memrchr', 'memchr_iter'):
                v = t.args[0].const_int()
                # only searches in the reader buffer split records / lines; a search inside a line that was already cut
                # (e.g. for the space behind the id) is not a line split
                hay = roots_of(b, t.args[1], through_calls=index_through) if len(t.args) > 1 else []
                on_buffer = any(r[0] == 'call' and is_buffer_call(prog, r[1].callee) for r in hay) or any(r[0] == 'arg' and r[-1] and r[-1][0][1] in ('buffer', 'buf_reader') for r in hay)
                if not on_buffer and v != 10:
                    continue
                R.add('SPLIT-LF', b, 'memchr', v == 10, site(b, t.line), '%s(needle=%s)' % (tp, t.args[0].pretty()))
            elif c.is_('slice::split', 'core::slice::split', 'slice::splitn', 'core::slice::splitn'):
                rs = roots_of(b, t.args[0], through_calls=index_through)
                on_buffer = any(r[0] == 'call' and is_buffer_call(prog, r[1].callee) for r in rs)
                if not on_buffer:
                    continue
                cb = closure_of_arg(prog, b, t, len(t.args) - 1)
                if cb is None and t.args[-1].is_const:
                    # a named function used as the predicate
                    fnm = str(t.args[-1].fn() or t.args[-1].j.get('s') or '')
                    cands_ = [x for x in prog.bodies.values() if x.promoted_of is None and fnm and (x.path == fnm or x.key == strip_generics(fnm) or fnm.endswith(x.key))]
                    cb = cands_[0] if len(cands_) == 1 else None
                sep = closure_separator(cb) if cb is not None else None
                R.add('SPLIT-LF', b, 'split-on-buffer', sep == 10, site(b, t.line), 'buffer split at byte %s' % sep, undecided=sep is None)
    R.floor('SPLIT-LF', 4)

    # ---------------------------------------------------------------- LEN-1 / EPOS (fastq errors)
    epos_rules(prog, R, trimmer)

    # ---------------------------------------------------------------- SPLIT-1
    split_rules(prog, R)

    # ---------------------------------------------------------------- VIEW
    view_rules(prog, R, trimmer)

    # ---------------------------------------------------------------- ITER
    iter_rules(prog, R)

    # ---------------------------------------------------------------- SER
    ser_rules(prog, R)
    ser_validation_rules(prog, R)
    utf8_rules(prog, R)


def closure_separator(cb):
    """for a closure |b| *b == CONST  -> CONST"""
    for blk in cb.blocks:
        for s in blk.stmts:
            if s.k == 'assign' and s.rv.k == 'bin' and s.rv.j['op'] == 'Eq':
                for o in s.rv.ops:
                    if o.const_int() is not None:
                        return o.const_int()
    return None


# --------------------------------------------------------------------------- EPOS / LEN

def copy_origin(body, op, du):
    """follow whole-local copies back to the defining statement/terminator (identity object)"""
    seen = set()
    while not op.is_const and op.place.is_local() and op.place.local not in seen:
        seen.add(op.place.local)
        ds = du.whole_defs(op.place.local)
        if len(ds) != 1:
            return ('multi', op.place.local)
        d = ds[0]
        if d[2] == 'assign' and d[3].rv.k == 'use' and not d[3].rv.ops[0].is_const and d[3].rv.ops[0].place.is_local():
            op = d[3].rv.ops[0]
            continue
        return ('def', id(d[3]), d[3])
    if op.is_const:
        return ('const', op.pretty())
    return ('place', op.place.key())


def origin_key(fo):
    """comparable identity of a copy origin: a value read from a (projected) place is identified by that place"""
    if fo[0] == 'def' and getattr(fo[2], 'k', None) == 'assign' and fo[2].rv.k == 'use' and not fo[2].rv.ops[0].is_const:
        return ('place', fo[2].rv.ops[0].place.key())
    return fo[:2]


def read_key(body, fo, du):
    """identity of an indexed read `base[i]` by what base and index derive from, so that two separate loads of the same buffer
    byte (`if buf[i] != b'@' { .. found: buf[i] .. }`) are recognised as the same value; None for other origins"""
    if not (fo[0] == 'def' and getattr(fo[2], 'k', None) == 'assign' and fo[2].rv.k == 'use' and not fo[2].rv.ops[0].is_const):
        return None
    pl = fo[2].rv.ops[0].place
    idx = [p for p in pl.proj if p['k'] == 'index']
    if len(idx) != 1:
        return None

    def sig(rs):
        out = set()
        for r in rs:
            if r[0] == 'arg':
                out.add(('arg', r[1], tuple(q[1] for q in r[-1])))
            elif r[0] == 'call' and r[1].callee is not None:
                out.add(('call', r[1].callee.target_path()))
            else:
                return None
        return frozenset(out)
    bs = sig(roots_of(body, Place({'l': pl.local, 'p': []}), du, through_calls=identity_through))
    ix = sig(roots_of(body, Place({'l': idx[0]['local'], 'p': []}), du))
    if not bs or not ix:
        return None
    return ('read', bs, ix)


def same_value(body, fa, fb, du):
    if origin_key(fa) == origin_key(fb):
        return True
    ka, kb = read_key(body, fa, du), read_key(body, fb, du)
    return ka is not None and ka == kb


def controlling_switches(body, blk):
    """all switch blocks the block is (transitively) control dependent on"""
    cd = body.cfg.control_deps()
    out = set()
    work = [blk]
    seen = set()
    while work:
        x = work.pop()
        if x in seen:
            continue
        seen.add(x)
        for (a, s) in cd.get(x, ()):
            out.add(a)
            work.append(a)
    return out


def shared_call(b, pt):
    """the position-helper call `pt` feeds the `pos` field of more than one kind of error (its arguments are chosen per kind
    by a table / match elsewhere in the function)"""
    kinds = set()
    for blk in b.blocks:
        for s in blk.stmts:
            if s.k == 'assign' and s.rv.k == 'agg' and s.rv.j.get('adt', '').endswith('::Error') and 'pos' in (s.rv.j.get('fields') or []):
                op = dict(zip(s.rv.j['fields'], s.rv.ops))['pos']
                if any(r[0] == 'call' and r[1] is pt for r in roots_of(b, op)):
                    kinds.add(s.rv.j.get('variant'))
    return len(kinds) > 1


def epos_rules(prog, R, trimmer):
    try:
        rp = prog.adts['fastq::RecordPos']
        order = [v['name'] for v in rp['variants']]
        R.add('EPOS-1', 'fastq::RecordPos', 'part-order', order == ['Head', 'Seq', 'Sep', 'Qual'], 'src/fastq.rs',
              'parts of a record in file order: %s (their index is the line offset of UnexpectedEnd)' % order)
    except KeyError:
        R.anchor_missing('EPOS-1', 'enum fastq::RecordPos')
    TABLE = {'InvalidStart': (0, 0), 'InvalidSep': (2, 1), 'UnequalLengths': (0, 1)}
    MARKER = {'InvalidStart': 64, 'InvalidSep': 43}
    count = {}
    epfn = set()
    for b in prog.bodies.values():
        if is_derive(b) or not b.file.endswith('fastq.rs') or 'fmt::' in b.path:
            continue
        du = DefUse(b)
        for blk in b.blocks:
            if blk.idx not in b.cfg.rset:
                continue
            for s in blk.stmts:
                if not (s.k == 'assign' and s.rv.k == 'agg' and s.rv.j.get('adt', '').endswith('fastq::Error')):
                    continue
                v = s.rv.j['variant']
                if v in ('Io', 'BufferLimit'):
                    continue
                count[v] = count.get(v, 0) + 1
                fields = dict(zip(s.rv.j['fields'], s.rv.ops))
                pr = roots_of(b, fields['pos'], du)
                if len(pr) != 1 or pr[0][0] != 'call' or prog.local_callee_body(pr[0][1].callee) is None:
                    R.undecided('EPOS-1', b, '%s#%d' % (v, count[v]), site(b, s.line), 'the error position is not the result of a position helper called with the line offset (it is built in place / from a table): not judged')
                    continue
                pt = pr[0][1]
                epfn.add(prog.local_callee_body(pt.callee).path)
                if v in TABLE:
                    want_off, want_id = TABLE[v]
                    off = pt.args[1].const_int() if pt.args[1].is_const else None
                    pid_ = pt.args[2].const_int() if pt.args[2].is_const else None
                    # a line offset that is not a literal here (a named constant is folded, but `RecordPos::Sep.line_offset()` or a
                    # value handed in by the caller is not): not judged; a literal that differs is a violation
                    R.add('EPOS-1', b, '%s#%d' % (v, count[v]), off == want_off and pid_ == want_id, site(b, s.line),
                          '%s: line offset %s (want %d), id requested %s (want %d)' % (v, off, want_off, pid_, want_id),
                          undecided=((off is None or pid_ is None) and (off is None or off == want_off) and (pid_ is None or pid_ == want_id)) or
                          ((off is None or pid_ is None) and shared_call(b, pt)))
                else:  # UnexpectedEnd
                    a1 = roots_of(b, pt.args[1], du)
                    def is_part(r):
                        if r[0] == 'arg':
                            return b.local_tys[r[1]].endswith('RecordPos')
                        if r[0] == 'discr':
                            q = roots_of(b, r[1].rv.place, du)
                            return bool(q) and all(x[0] == 'arg' and b.local_tys[x[1]].endswith('RecordPos') for x in q)
                        return False
                    ok_off = bool(a1) and all(is_part(r) for r in a1)
                    a2 = roots_of(b, pt.args[2], du)
                    ok_id = False
                    for r in a2:
                        if r[0] == 'call' and r[1].callee.path in ('std::cmp::PartialOrd::gt', 'std::cmp::PartialOrd::ge', 'std::cmp::PartialEq::ne'):
                            c = resolve_const_operand(b, r[1].args[1], du)
                            lhs = roots_of(b, r[1].args[0], du)
                            same = all(q[0] == 'arg' and b.local_tys[q[1]].endswith('RecordPos') for q in lhs)
                            if c == ('enum', 'fastq::RecordPos', 'Head') and same and r[1].callee.path != 'std::cmp::PartialOrd::ge':
                                ok_id = True
                    how = 'comparison with Head'
                    if not ok_id and not b.cfg.natural_loops():
                        # `let parse_id = match pos { Head => false, _ => true }`: decided path by path (scev): on every path to
                        # the call the flag is a literal, false exactly on the Head arm of a switch on the part
                        from scev import Sym, Aff, Path
                        init = Path()
                        init.env[1] = Aff.sym(('self',))
                        seen_ = []
                        for p_ in Sym(prog, b).run(0, init=init):
                            for (bx, tx, ax) in p_.effects:
                                if tx is pt and len(ax) == 3 and isinstance(ax[2], Aff) and ax[2].is_const():
                                    head_arm = None
                                    for (cx_, d_, tk_) in p_.conds:
                                        s1 = d_.single() if isinstance(d_, Aff) else None
                                        if isinstance(s1, tuple) and s1[0] == 'discr' and isinstance(s1[1], tuple) and s1[1][0] == 'H' and b.local_tys[s1[1][1]].endswith('RecordPos'):
                                            head_arm = (tk_ == 0)
                                    seen_.append((head_arm, ax[2].c))
                        if seen_ and all(h is not None for h, _ in seen_) and all((fl == 0) == h for h, fl in seen_) and any(h for h, _ in seen_) and any(not h for h, _ in seen_):
                            ok_id = True
                            how = 'match on the part: false exactly on the Head arm'
                    # the offset computed from the part by a match / helper instead of the cast: not judged
                    dd1 = data_deps(b, pt.args[1], du)
                    via_part = any((d_[0] == 'arg' and b.local_tys[d_[1]].endswith('RecordPos')) or d_[0] in ('call', 'discr') for d_ in dd1) or bool(a1) and all(r_[0] == 'const' for r_ in a1)
                    R.add('EPOS-1', b, '%s#%d' % (v, count[v]), ok_off and ok_id, site(b, s.line),
                          'UnexpectedEnd: line offset <- the part where the search stopped: %s; id iff part > Head: %s (%s)' % (ok_off, ok_id, how),
                          undecided=(ok_id and not ok_off and via_part) or shared_call(b, pt) or
                          # the position helper is handed the id itself (`error_pos(offset, Option<String>)`), not a flag: another shape
                          (not pt.args[2].is_const and pt.args[2].place.is_local() and b.local_tys[pt.args[2].place.local].strip() != 'bool'))
                # EPOS-2
                if v in MARKER:
                    fo = copy_origin(b, fields['found'], du)
                    sw = controlling_switches(b, blk.idx)
                    okc = False
                    for a in sw:
                        t = b.blocks[a].term
                        # `match byte { MARKER => .., _ => .. }`: a switch on the byte itself with the marker among its arms
                        if not t.discr.is_const and same_value(b, copy_origin(b, t.discr, du), fo, du) and MARKER[v] in [tv for tv, _ in t.targets]:
                            okc = True
                        for r in roots_of(b, t.discr, du):
                            if r[0] == 'bin' and r[1].rv.j['op'] in ('Ne', 'Eq'):
                                ops = r[1].rv.ops
                                cs = [o for o in ops if o.const_int() == MARKER[v]]
                                ot = [o for o in ops if o.const_int() != MARKER[v]]
                                if len(cs) == 1 and len(ot) == 1 and (copy_origin(b, ot[0], du)[:2] == fo[:2] or same_value(b, copy_origin(b, ot[0], du), fo, du)):
                                    okc = True
                    # and the byte is read at the record-start / separator offset
                    want_field = {'InvalidStart': ['buf_pos', 'pos', '0'], 'InvalidSep': ['buf_pos', 'sep']}[v]
                    at = False
                    at_unknown = True       # no indexed read of the buffer found behind the byte (it travelled through a tuple, a helper ...)
                    if fo[0] == 'def' and getattr(fo[2], 'rv', None) is not None and fo[2].rv.k == 'use' and not fo[2].rv.ops[0].is_const:
                        pl = fo[2].rv.ops[0].place
                        idx = [p for p in pl.proj if p['k'] == 'index']
                        if idx:
                            ir = roots_of(b, Place({'l': idx[0]['local'], 'p': []}), du)
                            at = bool(ir) and all(q[0] == 'arg' and q[1] == 1 and [f[1] for f in q[-1]] == want_field for q in ir)
                            at_unknown = not ir
                    R.add('EPOS-2', b, '%s#%d' % (v, count[v]), okc and at, site(b, s.line), undecided=(not (okc and at)) and (not decides_markers(b) or (okc and at_unknown)), detail=
                          'found is the byte compared with %r: %s; read at self.%s: %s' % (chr(MARKER[v]), okc, '.'.join(want_field), at))
                if v == 'UnequalLengths':
                    # EPOS-3 / LEN-1
                    lens = {}
                    any_handed_in = False
                    for nm in ('seq', 'qual'):
                        r = roots_of(b, fields[nm], du)
                        okn = False
                        if len(r) == 1 and r[0][0] == 'call' and r[0][1].callee.name == 'len':
                            lt = r[0][1]
                            inner = roots_of(b, lt.args[0], du, through_calls=identity_through)
                            if len(inner) == 1 and inner[0][0] == 'call':
                                cb = prog.local_callee_body(inner[0][1].callee)
                                if cb is not None and cb.key.endswith('::' + nm):
                                    # that accessor is a trimmed line site
                                    okn = cb.path in GOOD_SITES
                                    lens[nm] = lt
                        # lengths handed in by the function that measured them (detection / reporting split): not judged here
                        handed_in = bool(r) and all(q[0] in ('arg',) and q[1] != 1 for q in r) or (bool(r) and not decides_markers(b) and all(q[0] in ('arg', 'call') for q in r) and not okn)
                        # ... or measured by a private function that returns the lengths (`unequal_lengths() -> Option<(usize, usize)>`),
                        # or taken from a piece whose bounds a private function computed
                        if not okn and r and all(q[0] == 'call' and q[1].callee.name != 'len' and prog.local_callee_body(q[1].callee) is not None
                                                 and not is_u8_slice_ref(prog.local_callee_body(q[1].callee).local_tys[0]) for q in r):
                            handed_in = True
                        if not okn and len(r) == 1 and r[0][0] == 'call' and r[0][1].callee.name == 'len':
                            inner_ = roots_of(b, r[0][1].args[0], du, through_calls=identity_through)
                            # the length of a CR-trimmed line cut by a generic line function (`rec.line(buf, Line::Seq)`): which line it
                            # is is decided by an argument this rule does not follow
                            if inner_ and all(q[0] == 'call' and prog.local_callee_body(q[1].callee) is not None and prog.local_callee_body(q[1].callee).path in GOOD_SITES
                                              and prog.local_callee_body(q[1].callee).key.rsplit('::', 1)[-1] not in ('seq', 'qual', 'head') for q in inner_):
                                handed_in = True
                            if inner_ and all(q[0] == 'call' and prog.local_callee_body(q[1].callee) is not None and
                                              (prog.local_callee_body(q[1].callee).path in UNDECIDED_SITES or not is_u8_slice_ref(prog.local_callee_body(q[1].callee).local_tys[0])) for q in inner_):
                                handed_in = True
                        any_handed_in = any_handed_in or handed_in
                        R.add('EPOS-3', b, 'reported-%s' % nm, okn, site(b, s.line), 'field %s <- len(trimmed accessor `%s`): %s' % (nm, nm, okn), undecided=(not okn) and handed_in)
                    decided = False
                    if len(lens) == 2:
                        lt_ids = set(id(x) for x in lens.values())
                        for a in b.cfg.reachable:
                            t = b.blocks[a].term
                            if t.k != 'switch':
                                continue
                            for r in roots_of(b, t.discr, du):
                                if r[0] == 'bin' and r[1].rv.j['op'] in ('Ne', 'Eq'):
                                    ids = set()
                                    for o in r[1].rv.ops:
                                        for q in roots_of(b, o, du):
                                            if q[0] == 'call':
                                                ids.add(id(q[1]))
                                    if ids == lt_ids:
                                        ne_edge = t.otherwise if r[1].rv.j['op'] == 'Ne' else [tg for v, tg in t.targets if v == 0][0]
                                        # every path to the error passes the "lengths differ" edge
                                        if ne_edge != a and b.cfg.dominates(ne_edge, blk.idx):
                                            decided = True
                    R.add('LEN-1', b, 'verdict-on-reported-lengths', decided, site(b, s.line), undecided=(not decided) and (not decides_markers(b) or any_handed_in), detail=
                          'the UnequalLengths error %s' % ('is reached only through "trimmed seq length != trimmed qual length" (the lengths it reports)' if decided else 'can be reached without the trimmed lengths having been compared (e.g. on raw line extents only: a CRLF record without final terminator is rejected with seq == qual)'))
    len2_rule(prog, R, trimmer)
    len3_rule(prog, R)
    for v in ('InvalidStart', 'InvalidSep', 'UnequalLengths', 'UnexpectedEnd'):
        if count.get(v, 0) < 1:
            R.add('EPOS-1', 'fastq', 'constructed:%s' % v, False, 'src/fastq.rs', 'no construction of fastq::Error::%s found' % v)
    R.floor('EPOS-1', 5)
    R.floor('EPOS-2', 2)
    R.floor('EPOS-3', 2)
    R.floor('LEN-1', 1)
    # the position helper: UNIT-4 and EPOS-5
    for p in epfn:
        f = prog.bodies[p]
        du = DefUse(f)
        agg = None
        for blk in f.blocks:
            for s in blk.stmts:
                if s.k == 'assign' and s.rv.k == 'agg' and s.rv.j.get('adt', '').endswith('ErrorPosition'):
                    agg = (blk.idx, s)
        if agg is None:
            R.undecided('UNIT-4', f, 'shape', site(f, f.span['lo']), 'no ErrorPosition aggregate')
            continue
        ab, s = agg
        fields = dict(zip(s.rv.j['fields'], s.rv.ops))
        lr = roots_of(f, fields['line'], du)
        ok = False
        if len(lr) == 1 and lr[0][0] == 'bin' and lr[0][1].rv.j['op'] in ('Add', 'AddUnchecked'):
            o = lr[0][1].rv.ops
            ra = [roots_of(f, x, du) for x in o]
            def is_line(rs):
                return len(rs) == 1 and rs[0][0] == 'arg' and rs[0][1] == 1 and [q[1] for q in rs[0][-1]] == ['position', 'line']
            def is_off(rs):
                return len(rs) == 1 and rs[0][0] == 'arg' and rs[0][1] == 2 and not rs[0][-1]
            def off_from_param(op_):
                # an offset looked up from the parameter (`match part { Head => 0, Seq => 1, .. }`): literals selected by parameter 2
                dd_ = data_deps(f, op_, du)
                if bool(dd_) and all(d_[0] == 'const' or (d_[0] == 'arg' and d_[1] == 2) or d_[0] == 'discr' for d_ in dd_) and any(d_[0] == 'const' for d_ in dd_):
                    return True
                # ... or computed from it by a private function of the part (`part.line_offset()`)
                return bool(dd_) and any(d_[0] == 'arg' and d_[1] == 2 for d_ in dd_) and all(
                    (d_[0] == 'arg' and d_[1] == 2) or d_[0] in ('const', 'discr') or (d_[0] == 'call' and prog.local_callee_body(d_[1].callee) is not None and
                                                                                          'RecordPos' in prog.local_callee_body(d_[1].callee).key) for d_ in dd_)
            ok = (is_line(ra[0]) and (is_off(ra[1]) or off_from_param(o[1]))) or (is_line(ra[1]) and (is_off(ra[0]) or off_from_param(o[0])))
        R.add('UNIT-4', f, 'error-line', ok, site(f, s.line), 'ErrorPosition.line = self.position.line + line_offset: %s' % ok)
        # EPOS-5 (seeds C02-r5a / C06-r5a): wherever this function cuts the header out of the buffer, the conditions of the path
        # (predicates like `has_head()` evaluated in place) imply a non-negative extent - a header line that is a bare line feed
        # has none
        hg = head_guard_ok(prog, f, inline=True, strict=True)
        if hg is not None:
            R.add('EPOS-5', f, 'header-slice-guarded', hg, site(f, f.span['lo']),
                  'every path that slices the header line runs under conditions implying start + 1 <= end - 1 of that line: %s' % hg)
        # EPOS-5
        some_blocks = []
        for blk in f.blocks:
            if blk.idx not in f.cfg.rset:
                continue
            for st in blk.stmts:
                if st.k == 'assign' and st.rv.k == 'agg' and st.rv.j.get('variant') == 'Some' and 'String' in f.local_tys[st.place.local]:
                    some_blocks.append((blk.idx, st))
        for sb, st in some_blocks:
            sw = controlling_switches(f, sb)
            g_flag = g_len = False
            for a in sw:
                t = f.blocks[a].term
                for r in roots_of(f, t.discr, du):
                    if r[0] == 'arg' and f.local_tys[r[1]] == 'bool':
                        g_flag = True
                    if r[0] == 'bin' and r[1].rv.j['op'] in ('Gt', 'Ge', 'Ne'):
                        ops = r[1].rv.ops
                        c = [o.const_int() for o in ops if o.const_int() is not None]
                        dd = data_deps(f, r[1].rv.ops[0], du)
                        names = set(tuple(q[1] for q in d[-1]) for d in dd if d[0] == 'arg')
                        if ('buf_pos', 'seq') in names and ('buf_pos', 'pos', '0') in names and c and \
                                ((r[1].rv.j['op'] == 'Gt' and c[0] == 1) or (r[1].rv.j['op'] == 'Ge' and c[0] == 2) or (r[1].rv.j['op'] == 'Ne' and c[0] == 1)):
                            g_len = True
            # id derives from the header through the id split
            idr = data_deps(f, st.rv.ops[0], du)
            calls = [d[1].callee for d in idr if d[0] == 'call' and d[1].callee]
            from_head = any(c.name == 'head' for c in calls) and any(c.is_('slice::split', 'core::slice::split', 'slice::splitn', 'core::slice::splitn') for c in calls)
            sep = None
            for x, t in f.calls():
                if t.callee and t.callee.is_('slice::split', 'core::slice::split', 'slice::splitn', 'core::slice::splitn'):
                    cb = closure_of_arg(prog, f, t, len(t.args) - 1)
                    sep = closure_separator(cb) if cb else None
            g_len = head_guard_ok(prog, f)
            # ... and it is the FIRST piece of the split (mutation survey: `.next_back()` passes the suite)
            sels = [c.path for c in calls if c.path in ('std::iter::Iterator::next', 'std::iter::Iterator::nth', 'std::iter::Iterator::last',
                                                         'std::iter::DoubleEndedIterator::next_back', 'std::iter::DoubleEndedIterator::nth_back')]
            no_split = not any(c.is_('slice::split', 'core::slice::split', 'slice::splitn', 'core::slice::splitn') for c in calls)
            from_head = from_head and sels == ['std::iter::Iterator::next']
            R.add('EPOS-5', f, 'id-guard', g_flag and bool(g_len) and from_head and sep == 32, site(f, st.line), undecided=(g_len is None) or (g_flag and bool(g_len) and no_split and any(c.name == 'head' for c in calls)), detail=
                  'id extracted only if requested (%s) and header extent > 1 (%s); taken as the first piece of head() split at 0x%s (selectors %s)' % (g_flag, g_len, '%02x' % sep if sep is not None else '?', [x.rsplit('::', 1)[-1] for x in sels]))
    R.floor('UNIT-4', 1)
    R.floor('EPOS-5', 1)
    # FASTA InvalidStart: found is the compared byte
    for b in prog.bodies.values():
        if is_derive(b) or not b.file.endswith('fasta.rs') or 'fmt::' in b.path:
            continue
        du = DefUse(b)
        for blk in b.blocks:
            if blk.idx not in b.cfg.rset:
                continue
            for s in blk.stmts:
                if s.k == 'assign' and s.rv.k == 'agg' and s.rv.j.get('adt', '').endswith('fasta::Error') and s.rv.j['variant'] == 'InvalidStart':
                    fields = dict(zip(s.rv.j['fields'], s.rv.ops))
                    fo = copy_origin(b, fields['found'], du)
                    okc = False
                    for a in controlling_switches(b, blk.idx):
                        t = b.blocks[a].term
                        # `match .. { Some((line, start, b'>')) => .., Some((line, _, found)) => .. }`: a switch on the byte itself
                        if not t.discr.is_const and same_value(b, copy_origin(b, t.discr, du), fo, du) and 62 in [tv for tv, _ in t.targets]:
                            okc = True
                        for r in roots_of(b, t.discr, du):
                            if r[0] == 'bin' and r[1].rv.j['op'] in ('Ne', 'Eq'):
                                ops = r[1].rv.ops
                                cs = [o for o in ops if o.const_int() == 62]
                                ot = [o for o in ops if o.const_int() != 62]
                                if len(cs) == 1 and len(ot) == 1 and (copy_origin(b, ot[0], du)[:2] == fo[:2] or same_value(b, copy_origin(b, ot[0], du), fo, du)):
                                    okc = True
                    # constructed by a helper that is handed the byte (detection and reporting split): not judged there
                    handed = fo[0] == 'place' and len(fo[1]) == 1 or (fo[0] == 'multi') or (not okc and not any(
                        (bb_.term.k == 'switch' and 62 in [tv for tv, _ in bb_.term.targets]) or any(st_.k == 'assign' and st_.rv.k == 'bin' and any(o_.const_int() == 62 for o_ in st_.rv.ops) for st_ in bb_.stmts) for bb_ in b.blocks))
                    R.add('EPOS-2', b, 'fasta-InvalidStart', okc, site(b, s.line), "found is the byte compared with '>': %s" % okc, undecided=(not okc) and bool(handed))
    # EPOS-4 Display
    for b in prog.bodies.values():
        m = re.match(r'<(fasta|fastq)::(Error|ErrorPosition) as std::fmt::Display>::fmt$', b.key)
        if not m:
            continue
        adt = prog.adts.get('%s::%s' % (m.group(1), m.group(2)))
        if adt is None:
            continue
        du = DefUse(b)
        for v in adt['variants']:
            for fd in v['fields']:
                # reads of this field of this variant
                read_locals = []
                for blk in b.blocks:
                    if blk.idx not in b.cfg.rset:
                        continue
                    for s in blk.stmts:
                        if s.k != 'assign':
                            continue
                        pls = [o.place for o in s.rv.ops if not o.is_const]
                        if s.rv.place is not None:
                            pls.append(s.rv.place)
                        for pl in pls:
                            fs = [p for p in pl.proj if p['k'] == 'field']
                            dc = [p for p in pl.proj if p['k'] == 'downcast']
                            if pl.local == 1 and fs and fs[0]['name'] == fd['name'] and (adt['kind'] == 'struct' or (dc and dc[0]['variant'] == v['name'])):
                                read_locals.append(s.place.local)
                    t = blk.term
                formatted = False
                for l in read_locals:
                    for (k, t, i, via) in forward_sinks(b, l, through={'std::char::methods::escape_default', 'std::option::Option::as_ref', 'std::convert::From::from', 'std::convert::Into::into',
                                                                           'std::string::ToString::to_string', 'core::char::from_u32', 'std::char::from_u32'}):
                        if k == 'call' and t.callee and (t.callee.path.startswith('core::fmt::rt::Argument::new_') or t.callee.path == 'std::fmt::Display::fmt'):
                            formatted = True
                        if k in ('switch', 'discr') and fd['ty'].startswith('std::option::Option'):
                            pass
                if fd['ty'].startswith('std::option::Option') and not formatted:
                    # `if let Some(id) = self.id.as_ref()` — payload extraction
                    for blk in b.blocks:
                        for s in blk.stmts:
                            if s.k == 'assign' and not s.place.proj:
                                for (k, t, i, via) in forward_sinks(b, s.place.local):
                                    pass
                    for l in read_locals:
                        sinks = forward_sinks(b, l, through={'std::option::Option::as_ref'})
                        if any(k == 'call' and t.callee and t.callee.path.startswith('core::fmt::rt::Argument::new_') for (k, t, i, via) in sinks):
                            formatted = True
                if adt['kind'] == 'enum' and v['name'] == 'BufferLimit':
                    continue
                R.add('EPOS-4', b, '%s.%s' % (v['name'], fd['name']), formatted and bool(read_locals), site(b, b.span['lo']),
                      'field %s of %s reaches a formatting argument: %s' % (fd['name'], v['name'], formatted))
    R.floor('EPOS-4', 10)


# --------------------------------------------------------------------------- SPLIT-1

def split_rules(prog, R):
    for fmt in ('fasta', 'fastq'):
        sigs = {}
        for name in ('id_bytes', 'desc_bytes', 'id_desc_bytes', 'id_desc', 'id', 'desc'):
            try:
                b = prog.get('%s::Record::%s' % (fmt, name))
            except KeyError:
                R.anchor_missing('SPLIT-1', '%s::Record::%s' % (fmt, name))
                continue
            if name in ('id', 'desc'):
                target = name + '_bytes'
                calls = [t for _, t in b.calls() if t.callee and t.callee.path == '%s::Record::%s' % (fmt, target)]
                utf = [t for _, t in b.calls() if t.callee and t.callee.is_('std::str::from_utf8', 'core::str::from_utf8')]
                via_map = [t for _, t in b.calls() if t.callee and t.callee.path == 'std::option::Option::map']
                ok = len(calls) == 1 and (bool(utf) or any(a.is_const and 'from_utf8' in a.j.get('s', '') for t in via_map for a in t.args))
                R.add('SPLIT-1', b, 'delegates-to-%s' % target, ok, site(b, b.span['lo']), '%s() = from_utf8(%s())' % (name, target))
                continue
            sp = [t for _, t in b.calls() if t.callee and t.callee.name in ('split', 'splitn') and ('slice' in t.callee.path or 'str' in t.callee.path)]
            if len(sp) != 1:
                R.undecided('SPLIT-1', b, 'shape', site(b, b.span['lo']), 'expected exactly one split/splitn call [UNDECIDED]')
                continue
            t = sp[0]
            # receiver is the header
            rs = roots_of(b, t.args[0], through_calls=lambda c: 0 if c and (c.path in IDENTITY_CALLS) else None)
            on_head = all(r[0] == 'call' and (r[1].callee.name == 'head' or r[1].callee.is_('std::str::from_utf8', 'core::str::from_utf8')) for r in rs) and bool(rs)
            arity = None
            if t.callee.name == 'splitn':
                arity = t.args[1].const_int()
            sepop = t.args[-1]
            if sepop.is_const and 'closure' not in sepop.j and sepop.const_int() is not None:
                sep = sepop.const_int()
            else:
                cb = closure_of_arg(prog, b, t, len(t.args) - 1)
                sep = closure_separator(cb) if cb is not None else None
            # selector
            sel = []
            for _, t2 in sorted(b.calls(), key=lambda x: x[0]):
                if t2.callee and t2.callee.path == 'std::iter::Iterator::next':
                    sel.append('next')
                elif t2.callee and t2.callee.path == 'std::iter::Iterator::nth':
                    sel.append('nth(%s)' % t2.args[1].const_int())
            sigs[name] = (t.callee.name, arity, sep, tuple(sel), on_head)
            want = {
                'id_bytes': lambda s: s[3] == ('next',) and (s[0] == 'split' or s[1] == 2),
                'desc_bytes': lambda s: s[0] == 'splitn' and s[1] == 2 and s[3] in (('nth(1)',), ('next', 'next')),
                'id_desc_bytes': lambda s: s[0] == 'splitn' and s[1] == 2 and s[3] == ('next', 'next'),
                'id_desc': lambda s: s[0] == 'splitn' and s[1] == 2 and s[3] == ('next', 'next'),
            }[name]
            s = sigs[name]
            R.add('SPLIT-1', b, 'signature', s[2] == 32 and want(s) and s[4], site(b, t.line),
                  '%s: %s(arity=%s, separator=%s) then %s on the header: %s' % (name, s[0], s[1], s[2], list(s[3]), s[4]))
            if name in ('id_desc_bytes', 'id_desc'):
                # tuple slots: first piece is the id, second the description
                for blk in b.blocks:
                    for st in blk.stmts:
                        if st.k == 'assign' and st.rv.k == 'agg' and st.rv.j.get('agg') == 'tuple' and len(st.rv.ops) == 2:
                            r0 = roots_of(b, st.rv.ops[0])
                            r1 = roots_of(b, st.rv.ops[1])
                            c0 = [r[1] for r in r0 if r[0] == 'call']
                            c1 = [r[1] for r in r1 if r[0] == 'call']
                            if c0 and c1:
                                b0 = [x for x, tt in b.calls() if tt is c0[0]][0]
                                b1 = [x for x, tt in b.calls() if tt is c1[0]][0]
                                ok = c0[0].callee.path == 'std::iter::Iterator::next' and c1[0].callee.path == 'std::iter::Iterator::next' and b.cfg.dominates(b0, b1) and b0 != b1
                                R.add('SPLIT-1', b, 'slots', ok, site(b, st.line), '(id <- first next(), description <- second next()): %s' % ok)
    R.floor('SPLIT-1', 16)


# --------------------------------------------------------------------------- VIEW

def norm_body(b):
    """normalised body: per block in RPO, statement kinds / operators / constants / callee paths with locals renamed in order of first appearance"""
    ren = {}

    def rn(l):
        if l not in ren:
            ren[l] = len(ren)
        return ren[l]

    def pl(p):
        return (rn(p.local), tuple((x['k'], x.get('i')) for x in p.proj))

    def op(o):
        if o.is_const:
            return ('c', o.j.get('s'))
        return (o.k, pl(o.place))
    out = []
    for x in b.cfg.reachable:
        blk = b.blocks[x]
        for s in blk.stmts:
            if s.k == 'assign':
                out.append(('=', pl(s.place), s.rv.k, s.rv.j.get('op') if s.rv.k in ('bin', 'un') else None, s.rv.j.get('adt'), tuple(op(o) for o in s.rv.ops), pl(s.rv.place) if s.rv.place else None))
        t = blk.term
        if t.k == 'call':
            out.append(('call', t.callee.target_path() if t.callee else '?', tuple(op(a) for a in t.args)))
        else:
            out.append((t.k,))
    return out


def view_rules(prog, R, trimmer):
    # VIEW-1
    try:
        nx = prog.get('<fasta::SeqLines as std::iter::Iterator>::next')
        nb = prog.get('<fasta::SeqLines as std::iter::DoubleEndedIterator>::next_back')
    except KeyError:
        R.anchor_missing('VIEW-1', 'SeqLines::next / next_back')
        nx = nb = None
    if nx and nb:
        def inner(b, name):
            for _, t in b.calls():
                if t.callee and t.callee.name == name and t.callee.path.startswith('std::iter::'):
                    rs = roots_of(b, t.args[0])
                    return [tuple(q[1] for q in r[-1]) for r in rs if r[0] == 'arg' and r[1] == 1]
            return None
        f1, f2 = inner(nx, 'next'), inner(nb, 'next_back')
        R.add('VIEW-1', nx, 'same-inner-iterator', f1 is not None and f1 == f2 and bool(f1), site(nx, nx.span['lo']), 'next() steps %s, next_back() steps %s' % (f1, f2),
              undecided=f1 is None and f2 is None)   # no wrapped std iterator at all (e.g. a cursor over a slice): nothing to compare
        def mapping_sig(fn):
            """signature of how an item is turned into a line: for every slicing of the data in the
            function (or its closures): (bounds arithmetic as op/const multiset, trimmed?)"""
            sig = []
            for body in [fn] + prog.closures_of(fn):
                du = DefUse(body)
                for x, t in body.calls():
                    if t.callee and t.callee.path in SLICE_INDEX and len(t.args) == 2:
                        rng = roots_of(body, t.args[1], du)
                        arith = []
                        for r in rng:
                            if r[0] == 'agg':
                                for o in r[1].rv.ops:
                                    for d in data_deps(body, o, du):
                                        if d[0] == 'bin':
                                            arith.append((d[1].rv.j['op'], tuple(sorted(str(z.const_int()) for z in d[1].rv.ops if z.const_int() is not None))))
                                arith.append(('range', r[1].rv.j.get('adt', '').rsplit('::', 1)[-1]))
                        sinks = list(forward_sinks(body, t.dest.local))
                        trimmed = any(k == 'call' and tt.callee and prog.local_callee_body(tt.callee) is trimmer for (k, tt, i, via) in sinks) if trimmer is not None else False
                        # only the slicing that produces the line (it is trimmed or returned); re-slicing of a cursor over the offsets is not the mapping
                        if not trimmed and not any(k == 'ret' for (k, tt, i, via) in sinks):
                            continue
                        sig.append((tuple(sorted(arith)), trimmed))
            return sorted(sig)
        s1, s2 = mapping_sig(nx), mapping_sig(nb)
        ok = bool(s1) and s1 == s2
        R.add('VIEW-1', nx, 'same-mapping', ok, site(nx, nx.span['lo']), 'line computation of next(): %s ; of next_back(): %s' % (s1, s2),
              undecided=not s1 and not s2)   # the line is cut in a helper shared by both: nothing to compare here
    # VIEW-2
    try:
        fs = prog.get('fasta::RefRecord::full_seq')
    except KeyError:
        fs = None
        R.anchor_missing('VIEW-2', 'fasta::RefRecord::full_seq')
    if fs:
        du = DefUse(fs)
        for x, t in fs.calls():
            if t.dest.local == 0 and t.callee and t.callee.path in ('std::convert::Into::into', 'std::convert::From::from'):
                argty = fs.local_tys[t.args[0].place.local] if not t.args[0].is_const else ''
                borrowed = argty.startswith('&')
                sw = controlling_switches(fs, x)
                guard = None
                for a in sw:
                    tt = fs.blocks[a].term
                    for r in roots_of(fs, tt.discr, du):
                        if r[0] == 'bin' and r[1].rv.j['op'] in ('Eq', 'Ne'):
                            cs = [o.const_int() for o in r[1].rv.ops if o.const_int() is not None]
                            dd = data_deps(fs, [o for o in r[1].rv.ops if o.const_int() is None][0], du) if cs else []
                            on_count = any(d[0] == 'call' and d[1].callee and d[1].callee.name in ('num_seq_lines', 'len', 'count') for d in dd)
                            if cs == [1] and on_count:
                                # which edge leads here?
                                eq_edge = tt.otherwise if r[1].rv.j['op'] == 'Eq' else [tg for v, tg in tt.targets if v == 0][0]
                                on_eq = fs.cfg.dominates(eq_edge, x) and eq_edge != a
                                guard = on_eq
                if borrowed:
                    src = roots_of(fs, t.args[0], du, through_calls=identity_through)
                    from_seq = all(r[0] == 'call' and r[1].callee.name == 'seq' for r in src) and bool(src)
                    R.add('VIEW-2', fs, 'borrowed-iff-single-line', guard is True and from_seq, site(fs, t.line),
                          'Cow::Borrowed(seq()) is produced on the "line count == 1" branch: %s' % (guard is True))
                else:
                    src = roots_of(fs, t.args[0], du)
                    from_owned = all(r[0] == 'call' and r[1].callee.name == 'owned_seq' for r in src) and bool(src)
                    R.add('VIEW-2', fs, 'owned-otherwise', guard is False and from_owned, site(fs, t.line),
                          'Cow::Owned(owned_seq()) is produced on the other branch: %s' % (guard is False))
        R.floor('VIEW-2', 2)
    # VIEW-3
    for fmt, want in (('fasta', {'head': ('head', 'to_vec'), 'seq': ('owned_seq', None)}),
                      ('fastq', {'head': ('head', 'to_vec'), 'seq': ('seq', 'to_vec'), 'qual': ('qual', 'to_vec')})):
        try:
            b = prog.get('%s::RefRecord::to_owned_record' % fmt)
        except KeyError:
            R.anchor_missing('VIEW-3', '%s::RefRecord::to_owned_record' % fmt)
            continue
        for blk in b.blocks:
            for s in blk.stmts:
                if s.k == 'assign' and s.rv.k == 'agg' and s.rv.j.get('adt', '').endswith('OwnedRecord'):
                    for name, op in zip(s.rv.j['fields'], s.rv.ops):
                        acc, conv = want[name]
                        rs = roots_of(b, op, through_calls=lambda c: 0 if c and (c.path in IDENTITY_CALLS or c.name in ('to_vec', 'to_owned', 'into', 'from')) else None)
                        ok = bool(rs) and all(r[0] == 'call' and r[1].callee.name == acc for r in rs)
                        R.add('VIEW-3', b, 'field:%s' % name, ok, site(b, s.line), '%s <- %s' % (name, [r[1].callee.name if r[0] == 'call' else r[0] for r in rs]))
    try:
        os_ = prog.get('fasta::RefRecord::owned_seq')
        ext = [t for _, t in os_.calls() if t.callee and t.callee.name in ('extend', 'extend_from_slice', 'concat', 'collect', 'flatten')]
        sl = [t for _, t in os_.calls() if t.callee and t.callee.name == 'seq_lines']
        ok = False
        if ext and sl:
            for t in ext:
                rs = roots_of(os_, t.args[-1], through_calls=identity_through)
                # the extended value is the loop item of the seq_lines iterator
                for r in rs:
                    if r[0] == 'call' and r[1].callee.path == 'std::iter::Iterator::next':
                        it = roots_of(os_, r[1].args[0], through_calls=lambda c: 0 if c and c.path in IDENTITY_CALLS else None)
                        if any(q[0] == 'call' and q[1] is sl[0] for q in it):
                            ok = True
        if not ok and sl:
            # other idioms (fold / for_each with a closure, concat of a collected Vec ...): the result derives from the
            # line iterator and from no other view of the buffer
            deps = data_deps(os_, Place({'l': 0, 'p': []}))
            uses_lines = any(d[0] == 'call' and d[1] is sl[0] for d in deps)
            other_views = [d[1].callee.name for d in deps if d[0] == 'call' and d[1].callee and d[1].callee.name in ('seq', 'head', 'get_buf', 'buffer') ]
            R.add('VIEW-3', os_, 'owned-seq-concatenates-lines', uses_lines and not other_views, site(os_, os_.span['lo']),
                  'owned_seq is built from seq_lines() (idiom not analysed further): %s; other views of the buffer used: %s' % (uses_lines, other_views), undecided=uses_lines and not other_views)
        elif not ok and not sl:
            # does not go through seq_lines(): pieces handed out by a CR-trimming line function, in a loop - or not judged
            pieces = [r for t in ext for r in roots_of(os_, t.args[-1], through_calls=identity_through)]
            trimmed = bool(pieces) and all(r[0] == 'call' and prog.local_callee_body(r[1].callee) is not None and prog.local_callee_body(r[1].callee).path in GOOD_SITES for r in pieces)
            # built from another view of the record (the raw multi-line `seq()`, the buffer): terminators are then removed by hand
            # (seeds C01-r2a / C13-r2a: `retain`, split + trim of the raw sequence) - the line iterator is the one definition of "line"
            deps_ = data_deps(os_, Place({'l': 0, 'p': []}))
            raw_views = sorted(set(d[1].callee.name for d in deps_ if d[0] == 'call' and d[1].callee and d[1].callee.name in ('seq', 'get_buf', 'buffer')
                                   and not (prog.local_callee_body(d[1].callee) is not None and prog.local_callee_body(d[1].callee).path in GOOD_SITES and d[1].callee.name != 'seq')))
            R.add('VIEW-3', os_, 'owned-seq-concatenates-lines', trimmed and not raw_views, site(os_, os_.span['lo']),
                  'owned_seq does not use seq_lines(); it extends a Vec with %s%s' % ('lines from a CR-trimming line function' if trimmed else 'pieces this rule does not follow',
                                                                                     ('; built from the raw view(s) %s of the record' % raw_views) if raw_views else ': not judged' if not trimmed else ''),
                  undecided=(not trimmed) and not raw_views)
        else:
            R.add('VIEW-3', os_, 'owned-seq-concatenates-lines', ok, site(os_, os_.span['lo']), 'owned_seq extends a Vec with every item of seq_lines(): %s' % ok)
    except KeyError:
        R.anchor_missing('VIEW-3', 'fasta::RefRecord::owned_seq')
    R.floor('VIEW-3', 6)


# --------------------------------------------------------------------------- ITER

ALLOWED_ITER_TY = re.compile(r"^(std::(slice::Iter|iter::Zip|iter::Skip|iter::Take|iter::Rev|iter::Enumerate|slice::Windows|slice::Chunks|slice::ChunksExact)|<|>|,|\s|'\w+|usize|u8|&|mut|(fasta|fastq)::BufferPosition)+$")


def iter_rules(prog, R):
    iters = {}
    for im in prog.impls:
        if im.get('trait') == 'std::iter::Iterator':
            iters[strip_generics(im['self'])] = im
    for self_ty, im in sorted(iters.items()):
        adt = prog.adts.get(self_ty)
        if adt is None:
            continue
        # ITER-2: field types
        inner_fields = []
        for fd in adt['variants'][0]['fields']:
            ty = fd['ty']
            if 'Iter' in ty or 'iter::' in ty or 'slice::Windows' in ty or 'slice::Chunks' in ty:
                ok = bool(ALLOWED_ITER_TY.match(ty))
                inner_fields.append(fd['name'])
                R.add('ITER-2', self_ty, 'field:%s' % fd['name'], ok, adt['span']['file'], 'inner iterator type %s is a std slice iterator (fused, exact size) or an adaptor of one: %s' % (ty, ok))
            elif 'Reader<' in ty:
                inner_fields.append(fd['name'])
                R.add('ITER-2', self_ty, 'field:%s' % fd['name'], True, adt['span']['file'], 'wraps a reader (%s); its end is sticky by FSM-E' % ty)
        # next() delegates to the inner iterator
        for tr, meth in (('std::iter::Iterator', 'next'), ('std::iter::DoubleEndedIterator', 'next_back')):
            key = '<%s as %s>::%s' % (self_ty, tr, meth)
            bs = prog.by_key.get(key, [])
            if not bs:
                continue
            b = bs[0]
            # the returned item derives from exactly one step of the wrapped iterator (through
            # Option::map / `?` / match — any shape)
            steps = []
            for x, t in b.calls():
                if t.callee and t.callee.name in ('next', 'next_back', 'nth', 'nth_back', 'last') and t.args:
                    rr = roots_of(b, t.args[0])
                    on_inner = bool(rr) and all(q[0] == 'arg' and q[1] == 1 and q[-1] and q[-1][0][1] in inner_fields for q in rr)
                    if on_inner or 'iter' in t.callee.path.lower():
                        steps.append((t, on_inner))
            # adaptors that may consume several items of the wrapped iterator per call (seeds C20-b / C20-r2b: `.find(..)`):
            # the reported length then counts items that are never delivered
            multi = []
            for x, t in b.calls():
                if t.callee and t.callee.name in ('find', 'rfind', 'find_map', 'filter', 'filter_map', 'skip_while', 'take_while', 'position', 'rposition', 'skip', 'step_by') and t.args and 'iter' in t.callee.path.lower():
                    dd = data_deps(b, t.args[0])
                    if any(d[0] == 'arg' and d[1] == 1 and d[-1] and d[-1][0][1] in inner_fields for d in dd):
                        multi.append(t.callee.name)
            if multi:
                R.add('ITER-2', b, 'delegates-%s' % meth, False, site(b, b.span['lo']),
                      '%s() runs %s over the wrapped iterator: one call may consume several of its items, which size_hint()/len() still count' % (meth, '/'.join(sorted(set(multi)))))
                continue
            # one step of an iterator that is built from the wrapped reader / iterator on the spot (`self.rdr.records().next()`)
            if len(steps) == 1 and not steps[0][1]:
                dd_ = data_deps(b, steps[0][0].args[0])
                if any(d[0] == 'arg' and d[1] == 1 and d[-1] and d[-1][0][1] in inner_fields for d in dd_):
                    steps = [(steps[0][0], True)]
            one = len(steps) == 1 and steps[0][1] and steps[0][0].callee.name == meth
            feeds = False
            if one:
                deps = data_deps(b, Place({'l': 0, 'p': []}))
                feeds = any(d[0] == 'call' and d[1] is steps[0][0] for d in deps)
                # closures mapped over the item count as deriving from it
                if not feeds:
                    for (k, tt, i, via) in forward_sinks(b, steps[0][0].dest.local, through={'std::ops::Try::branch'}):
                        if k == 'call' and tt.callee and tt.callee.path in ('std::option::Option::map',) and tt.dest.local == 0:
                            feeds = True
                        if k == 'ret':
                            feeds = True
            R.add('ITER-2', b, 'delegates-%s' % meth, one and feeds, site(b, b.span['lo']),
                  '%s() takes exactly one %s() step of the wrapped iterator and returns an item derived from it: %s' % (meth, meth, one and feeds) if steps else
                  '%s() does not step a wrapped std iterator directly (helper function, cursor over a slice, reader-backed through a helper): not judged by this rule (FSM-D / VIEW-1 cover it)' % meth,
                  undecided=not steps)
        # ITER-1: overridden size_hint / len
        for tr, meth in (('std::iter::Iterator', 'size_hint'), ('std::iter::ExactSizeIterator', 'len')):
            key = '<%s as %s>::%s' % (self_ty, tr, meth)
            bs = prog.by_key.get(key, [])
            if not bs:
                continue
            b = bs[0]
            srcs = length_sources(prog, b, 0)
            bad = []
            unknown = []
            # a length kept as the distance of two cursors (`back - front`): every stepping method moves one of them - what has to
            # hold is that each stepping method writes at least one of the fields the length is computed from
            fsrc = [w_ for (k_, w_) in srcs if k_ == 'field']
            two_cursor = False
            if len(fsrc) >= 2 and all(k_ == 'field' for (k_, _) in srcs):
                two_cursor = True
                for tr2, m2 in (('std::iter::Iterator', 'next'), ('std::iter::DoubleEndedIterator', 'next_back'),
                                ('std::iter::Iterator', 'nth'), ('std::iter::DoubleEndedIterator', 'nth_back')):
                    for nb in prog.by_key.get('<%s as %s>::%s' % (self_ty, tr2, m2), []):
                        if not any(s.k == 'assign' and s.place.local == 1 and [p['name'] for p in s.place.proj if p['k'] == 'field'][:1] and
                                   [p['name'] for p in s.place.proj if p['k'] == 'field'][0] in fsrc for blk in nb.blocks for s in blk.stmts):
                            two_cursor = False
                            bad.append('%s() writes none of the fields %s the length is computed from' % (m2, fsrc))
            if two_cursor and meth == 'size_hint':
                # ITER-1 for cursor pairs (seeds C20-a, C20-r2a, C20-r6a: `if self.back == 0 { return None }`, `self.back.checked_sub(1)?`
                # in next_back): a step reports the end only on a test that involves BOTH cursors - the iterator is exhausted when
                # they meet, wherever they meet
                for tr2, m2 in (('std::iter::Iterator', 'next'), ('std::iter::DoubleEndedIterator', 'next_back')):
                    for nb in prog.by_key.get('<%s as %s>::%s' % (self_ty, tr2, m2), []):
                        ndu = DefUse(nb)
                        none_exits = []
                        for blk in nb.blocks:
                            if blk.idx not in nb.cfg.rset:
                                continue
                            if any(st.k == 'assign' and st.place.local == 0 and not st.place.proj and st.rv.k == 'agg' and st.rv.j.get('variant') == 'None' for st in blk.stmts):
                                none_exits.append(blk.idx)
                            t_ = blk.term
                            if t_.k == 'call' and t_.callee and t_.callee.path == 'std::ops::FromResidual::from_residual' and t_.dest.local == 0:
                                none_exits.append(blk.idx)
                        verdicts = []
                        for x in none_exits:
                            fields_, unknown_ = set(), False
                            for a_ in controlling_switches(nb, x):
                                for d_ in data_deps(nb, nb.blocks[a_].term.discr, ndu):
                                    if d_[0] == 'arg' and d_[1] == 1:
                                        if d_[-1]:
                                            fields_.add(d_[-1][0][1])
                                        else:
                                            unknown_ = True
                                    elif d_[0] == 'call' and prog.local_callee_body(d_[1].callee) is not None:
                                        unknown_ = True
                            verdicts.append((set(fsrc) <= fields_, unknown_, sorted(fields_)))
                        if verdicts:
                            okc = all(v[0] for v in verdicts)
                            und = (not okc) and any(v[1] for v in verdicts if not v[0])
                            R.add('ITER-1', nb, 'end-test-compares-both-cursors', okc, site(nb, nb.span['lo']),
                                  '%s() reports the end under tests over the fields %s (required: both of %s)' % (m2, [v[2] for v in verdicts], fsrc), undecided=und)
            for (kind, what) in ([] if two_cursor else srcs):
                if kind == 'inner':
                    if what not in inner_fields:
                        bad.append('length of field `%s`, which is not the wrapped iterator' % what)
                    continue
                if kind == 'field':
                    # a stored length: must be written by every stepping method the type has
                    # (seed C20-r4b: decremented in next() only, stale after a step from the back)
                    stale = []
                    for tr2, m2 in (('std::iter::Iterator', 'next'), ('std::iter::DoubleEndedIterator', 'next_back'),
                                    ('std::iter::Iterator', 'nth'), ('std::iter::DoubleEndedIterator', 'nth_back')):
                        for nb in prog.by_key.get('<%s as %s>::%s' % (self_ty, tr2, m2), []):
                            w = any(s.k == 'assign' and s.place.local == 1 and [p['name'] for p in s.place.proj if p['k'] == 'field'] == [what]
                                    for blk in nb.blocks for s in blk.stmts)
                            if not w:
                                stale.append(m2)
                    if stale:
                        bad.append('field `%s` is not updated by %s()' % (what, '(), '.join(stale)))
                else:
                    unknown.append('%s %s' % (kind, what))
            R.add('ITER-1', b, 'length-is-live', not bad and bool(srcs), site(b, b.span['lo']),
                  '%s() is computed from %s%s' % (meth, srcs, (': ' + '; '.join(bad) + ' (stale after the first step)') if bad else ''),
                  undecided=not bad and (bool(unknown) or not srcs))
    R.floor('ITER-2', 14)
    R.floor('ITER-1', 2)


def length_sources(prog, b, depth):
    """where do the numbers returned by a len()/size_hint() body come from?
    -> list of ('inner', field) | ('field', name) | ('other', description)"""
    out = []
    du = DefUse(b)
    work = [Place({'l': 0, 'p': []})]
    seen = set()
    n = 0
    while work and n < 200:
        x = work.pop()
        n += 1
        for r in roots_of(b, x, du):
            k = r[0]
            if k == 'arg':
                if r[1] == 1:
                    names = [q[1] for q in r[-1]]
                    if names:
                        out.append(('field', names[0]))
                    else:
                        out.append(('other', 'self as a whole'))
                else:
                    out.append(('other', 'a parameter'))
            elif k == 'call':
                t = r[1]
                if id(t) in seen:
                    continue
                seen.add(id(t))
                cb = prog.local_callee_body(t.callee)
                if cb is not None and depth < 3:
                    recv = roots_of(b, t.args[0], du) if t.args else []
                    if recv and all(q[0] == 'arg' and q[1] == 1 and not q[-1] for q in recv):
                        out += length_sources(prog, cb, depth + 1)
                    else:
                        out.append(('other', 'call of %s on something else than self' % cb.key))
                elif t.callee and t.callee.name in ('len', 'size_hint', 'count') and t.args:
                    recv = roots_of(b, t.args[0], du, through_calls=identity_through)
                    if recv and all(q[0] == 'arg' and q[1] == 1 and q[-1] for q in recv):
                        out.append(('inner', recv[0][-1][0][1]))
                    else:
                        out.append(('other', 'length of something that is not a field of self'))
                else:
                    out.append(('other', 'result of %s' % (t.callee.path if t.callee else '?')))
            elif k in ('bin', 'un', 'agg'):
                s_ = r[1]
                if id(s_) in seen:
                    continue
                seen.add(id(s_))
                work.extend(s_.rv.ops)
            elif k == 'const':
                pass
            else:
                out.append(('other', k))
    seen2 = []
    for o in out:
        if o not in seen2:
            seen2.append(o)
    return seen2


# --------------------------------------------------------------------------- SER

def ser_rules(prog, R):
    types = ['fasta::OwnedRecord', 'fasta::RecordSet', 'fasta::BufferPosition', 'fastq::OwnedRecord', 'fastq::RecordSet', 'fastq::BufferPosition']
    for ty in types:
        adt = prog.adts.get(ty)
        if adt is None:
            R.anchor_missing('SER-1', ty)
            continue
        declared = [f['name'] for f in adt['variants'][0]['fields']]
        ser = [b for b in prog.bodies.values() if re.search(r'Serialize for %s>::serialize$' % re.escape(ty), b.path)]
        if len(ser) != 1:
            R.undecided('SER-1', ty, 'serialize-impl', adt['span']['file'], 'expected one derived Serialize impl, found %d: a hand-written impl (e.g. through a private mirror struct) is not judged' % len(ser))
            continue
        names = []
        nlen = None
        for _, t in ser[0].calls():
            if t.callee and t.callee.name == 'serialize_field':
                bs = t.args[1].const_bytes() if t.args[1].is_const else None
                names.append(bs.decode() if bs is not None else '?')
            if t.callee and t.callee.name == 'skip_field':
                names.append('<skipped>')
            if t.callee and t.callee.name == 'serialize_struct':
                r = roots_of(ser[0], t.args[2])
                # `false as usize + 1 + 1`: count the +1 terms -> evaluated by const folding of bin chain
                nlen = count_len(ser[0], t.args[2])
        # every declared field is written exactly once under its own name (the serialised names may be renamed: what matters is
        # their number, that none is skipped, that they are distinct - and, below, that the deserialiser accepts the very same names)
        converts = (not names) and any(t.callee and t.callee.path in ('std::convert::Into::into', 'std::convert::From::from') for _, t in ser[0].calls())
        ser_ok = len(names) == len(declared) and '<skipped>' not in names and '?' not in names and len(set(names)) == len(names)
        R.add('SER-1', ty, 'serialized-fields', ser_ok, adt['span']['file'],
              'serialize_field names %s vs declared fields %s%s' % (names, declared, ' (the value is converted into another type that is serialised instead - #[serde(into)]: not judged)' if converts else ''),
              undecided=(not ser_ok) and converts)
        de = [b for b in prog.bodies.values() if re.search(r"Deserialize<'de> for %s>::deserialize::__FieldVisitor as .*Visitor<'de>>::visit_str$" % re.escape(ty), b.path)]
        if len(de) != 1:
            dimpl = [b for b in prog.bodies.values() if re.search(r"Deserialize<'de> for %s>::deserialize$" % re.escape(ty), b.path)]
            from_conv = len(de) == 0 and len(dimpl) == 1 and any(t.callee and (t.callee.path in ('std::convert::Into::into', 'std::convert::From::from', 'std::convert::TryFrom::try_from')
                                                                                  or t.callee.path.endswith('Deserialize::deserialize')) for _, t in dimpl[0].calls())
            R.add('SER-1', ty, 'deserialize-impl', False, adt['span']['file'], 'expected one derived Deserialize field visitor, found %d%s' % (
                len(de), ' (another type is deserialised and converted - #[serde(from)]: not judged)' if from_conv else ''), undecided=from_conv)
            continue
        dn = []
        for _, t in de[0].calls():
            if t.callee and t.callee.path == 'std::cmp::PartialEq::eq':
                for a in t.args:
                    if a.is_const and a.const_bytes() is not None:
                        dn.append(a.const_bytes().decode())
        R.add('SER-1', ty, 'deserialized-fields', sorted(dn) == sorted(names) and len(dn) == len(declared), adt['span']['file'],
              'field names accepted by the deserialiser %s vs names written by the serialiser %s (declared fields %s)' % (dn, names, declared))
        # every accepted name maps to a distinct __fieldN, and visit_map / visit_seq build the struct from all of them
        vs = [b for b in prog.bodies.values() if re.search(r"Deserialize<'de> for %s>::deserialize::__Visitor<'de> as .*Visitor<'de>>::visit_(seq|map)$" % re.escape(ty), b.path)]
        for b in vs:
            for blk in b.blocks:
                if blk.idx not in b.cfg.rset:
                    continue
                for s in blk.stmts:
                    if s.k == 'assign' and s.rv.k == 'agg' and strip_generics(s.rv.j.get('adt', '')) == ty:
                        okf = s.rv.j['fields'] == declared
                        srcs = []
                        for nm, op in zip(s.rv.j['fields'], s.rv.ops):
                            rs = roots_of(b, op)
                            srcs.append((nm, [r[0] for r in rs]))
                        allvar = all(r and all(x in ('call', 'agg', 'other', 'arg', 'undef') for x in r) and 'const' not in r for _, r in srcs)
                        R.add('SER-1', ty, 'rebuilt-from-input:%s' % b.path.rsplit('::', 1)[-1], okf and allvar, site(b, s.line),
                              'every field of the rebuilt value comes from the input: %s' % srcs)
    R.floor('SER-1', 24)
    for ty in ('fasta::OwnedRecord', 'fastq::OwnedRecord'):
        adt = prog.adts.get(ty)
        bs = prog.by_key.get('<%s as std::cmp::PartialEq>::eq' % ty, [])
        if not adt or len(bs) != 1:
            R.anchor_missing('SER-3', '%s: PartialEq' % ty)
            continue
        b = bs[0]
        declared = [f['name'] for f in adt['variants'][0]['fields']]
        compared = set()
        for _, t in b.calls():
            if t.callee and t.callee.path in ('std::cmp::PartialEq::eq', 'std::cmp::PartialEq::ne'):
                a0 = roots_of(b, t.args[0])
                a1 = roots_of(b, t.args[1])
                f0 = set(q[-1][0][1] for q in a0 if q[0] == 'arg' and q[1] == 1 and q[-1])
                f1 = set(q[-1][0][1] for q in a1 if q[0] == 'arg' and q[1] == 2 and q[-1])
                compared |= (f0 & f1)
        R.add('SER-3', b, 'compares-every-field', compared == set(declared), site(b, b.span['lo']), 'compared fields %s vs declared %s' % (sorted(compared), declared))
    R.floor('SER-3', 2)


def count_len(b, op):
    return None


def decides_markers(b):
    """does this function itself compare bytes with the record markers '@' / '+' (switch arm or == / != constant)?
    A function that only *reports* a defect found elsewhere (detection and reporting split into two functions) does not."""
    for blk in b.blocks:
        if blk.term.k == 'switch' and any(v in (64, 43) for v, _ in blk.term.targets):
            return True
        for st in blk.stmts:
            if st.k == 'assign' and st.rv.k == 'bin' and st.rv.j['op'] in ('Eq', 'Ne') and any(o.const_int() in (64, 43) for o in st.rv.ops):
                return True
    return False


def head_guard_ok(prog, f, inline=False, strict=False):
    """every path of the position helper that slices the header (BufferPosition::head) is taken under
    conditions that imply a non-negative slice extent hi - lo (solved symbolically, whatever the guard looks like)"""
    from scev import Sym, Aff, Path, slice_range, linear_preds, preds_hold
    hb = [b for b in prog.bodies.values() if b.key.endswith('fastq::BufferPosition::head')]
    if len(hb) != 1:
        return None       # no accessor of that name (the lines are cut by one function selected by a parameter): not judged
    bp = ('f', ('self',), None, 'buf_pos')
    rng = slice_range(prog, hb[0], bp)
    if rng is None or not all(isinstance(x, Aff) for x in rng):
        return None     # the header is not cut by a visible `buffer[lo..hi]` in the accessor: not judged
    ext = rng[1] - rng[0]
    base = ext - Aff.const(ext.c)
    init = Path()
    init.env[1] = Aff.sym(('self',))
    n = 0
    for p in Sym(prog, f, inline=inline).run(0, init=init):
        if not any(prog.local_callee_body(t.callee) is hb[0] for (_, t, _) in p.effects):
            continue
        n += 1
        preds = linear_preds(p.conds, base)
        if not preds:
            return None if strict else False
        if any(preds_hold(preds, u - ext.c) for u in (-1, -2, -(1 << 40))):
            return False
    return (n > 0) if not strict else (True if n > 0 else None)


def len3_rule(prog, R):
    """LEN-3 (mutation survey: the raw extents of the fast path can be computed wrongly and the suite passes)"""
    from scev import Sym, Aff, Agg, Path, slice_range, linear_preds, preds_hold
    R.rule('LEN-3', 'the validator accepts a record without comparing the trimmed lengths only under conditions that force the untrimmed sequence and quality slices (as the accessors cut them) to have equal extents; solved symbolically from the accessor slice bounds and the path conditions')
    vals = [b for b in prog.bodies.values() if b.key.startswith('fastq::Reader::') and not is_derive(b) and any(
        s.k == 'assign' and s.rv.k == 'agg' and s.rv.j.get('variant') == 'UnequalLengths' for blk in b.blocks for s in blk.stmts)]
    acc = {}
    for nm in ('seq', 'qual'):
        bs = [b for b in prog.bodies.values() if b.key.endswith('fastq::BufferPosition::%s' % nm)]
        if len(bs) == 1:
            acc[nm] = bs[0]
    if len(vals) != 1 or len(acc) != 2:
        R.anchor_missing('LEN-3', 'the validator and the seq / qual slice accessors of fastq::BufferPosition')
        return
    v = vals[0]
    if not decides_markers(v):
        R.undecided('LEN-3', v, 'validator-shape', site(v, v.span['lo']), 'the function that constructs UnequalLengths does not itself test the record (detection and reporting are split): not judged')
        return
    bp = ('f', ('self',), None, 'buf_pos')
    sr, qr = slice_range(prog, acc['seq'], bp), slice_range(prog, acc['qual'], bp)
    if not sr or not qr or not all(isinstance(x, Aff) for x in sr + qr):
        R.anchor_missing('LEN-3', 'slice bounds of the seq / qual accessors')
        return
    D = (sr[1] - sr[0]) - (qr[1] - qr[0])
    base = D - Aff.const(D.c)
    init = Path()
    init.env[1] = Aff.sym(('self',))
    n = ntrim = 0
    raw = []
    for p in Sym(prog, v).run(0, init=init):
        r0 = p.env.get(0)
        if p.end[0] != 'return' or not (isinstance(r0, Agg) and r0.variant == 'Ok'):
            continue

        def is_trim_len(a):
            s1 = a.single() if isinstance(a, Aff) else None
            return isinstance(s1, tuple) and s1[0] == 'len' and isinstance(s1[1], tuple) and s1[1][0] == 'call' and str(s1[1][1]).rsplit('::', 1)[-1] in ('seq', 'qual')
        trimmed = False
        for (_, d, taken) in p.conds:
            s1 = d.single() if isinstance(d, Aff) else None
            if isinstance(s1, tuple) and s1[0] == 'cmp' and s1[1] in ('Eq', 'Ne') and is_trim_len(s1[2]) and is_trim_len(s1[3]) and s1[2] != s1[3]:
                truth = taken is None or taken != 0
                if (s1[1] == 'Eq') == truth:
                    trimmed = True
        n += 1
        if trimmed:
            ntrim += 1
            continue
        preds = linear_preds(p.conds, base)
        forced = bool(preds) and preds_hold(preds, -D.c) and not any(preds_hold(preds, -D.c + d) for d in (1, -1, 2, -2, 1 << 40, -(1 << 40)))
        raw.append(forced)
    R.add('LEN-3', v, 'acceptance-without-trimmed-comparison-forces-equal-slice-extents', all(raw) and n > 0, site(v, v.span['lo']),
          '%d accepting paths: %d after the trimmed lengths compared equal, %d without; on the latter the path conditions force extent(seq slice) - extent(qual slice) = %r to be 0: %s' % (n, ntrim, len(raw), D, raw))
    R.floor('LEN-3', 1)


def len2_rule(prog, R, trimmer):
    """LEN-2: a record whose last line has no terminator is accepted only after its trimmed
    lengths were compared.  The raw line extents include the terminators, and the extent of an
    unterminated quality line counts a terminator that is not there; equality of raw extents is
    conclusive only when both lines carry the same terminator."""
    R.rule('LEN-2', 'the validator accepts on equal raw extents only when told that the last line is terminated; the site that completes a record at the end of the input (record end := buffer length) asks for the comparison of the trimmed lengths')
    vals = [b for b in prog.bodies.values() if b.key.startswith('fastq::Reader::') and not is_derive(b) and any(
        s.k == 'assign' and s.rv.k == 'agg' and s.rv.j.get('variant') == 'UnequalLengths' for blk in b.blocks for s in blk.stmts)]
    if len(vals) != 1:
        R.anchor_missing('LEN-2', 'the validator (function constructing UnequalLengths)')
        return
    v = vals[0]
    if not decides_markers(v):
        R.undecided('LEN-2', v, 'validator-shape', site(v, v.span['lo']), 'the function that constructs UnequalLengths does not itself test the record (detection and reporting are split): not judged')
        return
    du = DefUse(v)
    # trimmed-equality edges: switches on Ne/Eq of len(trimmed seq) / len(trimmed qual)
    def trimmed_len_terms():
        out = []
        for x, t in v.calls():
            if t.callee and t.callee.name == 'len':
                inner = roots_of(v, t.args[0], du, through_calls=identity_through)
                if inner and all(q[0] == 'call' and prog.local_callee_body(q[1].callee) is not None and
                                 prog.local_callee_body(q[1].callee).key.rsplit('::', 1)[-1] in ('seq', 'qual') for q in inner):
                    out.append(t)
        return out
    lts = set(id(t) for t in trimmed_len_terms())
    eq_edges = set()
    for a in v.cfg.reachable:
        t = v.blocks[a].term
        if t.k != 'switch':
            continue
        for r in roots_of(v, t.discr, du):
            if r[0] == 'bin' and r[1].rv.j['op'] in ('Ne', 'Eq'):
                ids = set()
                for o in r[1].rv.ops:
                    for q in roots_of(v, o, du):
                        if q[0] == 'call':
                            ids.add(id(q[1]))
                if len(ids) == 2 and ids <= lts:
                    eq_t = [tg for vv, tg in t.targets if vv == 0][0] if r[1].rv.j['op'] == 'Ne' else t.otherwise
                    eq_edges.add((a, eq_t))
    # edges that require "the last line is terminated" (a bool parameter being false / true resp.)
    bool_params = [i for i in range(2, v.arg_count + 1) if v.local_tys[i] == 'bool']
    term_edges = set()
    for a in v.cfg.reachable:
        t = v.blocks[a].term
        if t.k == 'switch' and not t.discr.is_const:
            rs = roots_of(v, t.discr, du)
            if rs and all(r[0] == 'arg' and r[1] in bool_params for r in rs):
                # the edge on which the flag "unterminated" is false
                for vv, tg in t.targets:
                    if vv == 0:
                        term_edges.add((a, tg))
    from rules_err import ok_return_blocks
    okret = ok_return_blocks(v)
    removed = eq_edges | term_edges
    seen = {0}
    st = [0]
    while st:
        x = st.pop()
        for s_ in v.cfg.succ[x]:
            if (x, s_) in removed or s_ in seen:
                continue
            seen.add(s_)
            st.append(s_)
    esc = sorted(r for r in okret if r in seen)
    if esc and eq_edges and not v.cfg.natural_loops():
        # the verdicts are merged into one value first (`let broken = if .. {Some(err)} else if .. {..} else {None}; match broken`):
        # decide per path - every accepting path took "trimmed lengths equal" or "last line terminated"
        from scev import Sym as _Sym, Aff as _Aff
        npaths = nok = 0
        for p_ in _Sym(prog, v).run(0):
            r0 = p_.env.get(0)
            if p_.end[0] != 'return' or getattr(r0, 'variant', None) != 'Ok':
                continue
            npaths += 1
            good = False
            for (x_, d_, tk_) in p_.conds:
                s1 = d_.single() if isinstance(d_, _Aff) else None
                if isinstance(s1, tuple) and s1[0] == 'H' and s1[1] in bool_params and tk_ == 0:
                    good = True
                if isinstance(s1, tuple) and s1[0] == 'cmp' and s1[1] in ('Eq', 'Ne') and all(
                        isinstance(o_, _Aff) and isinstance(o_.single(), tuple) and o_.single()[0] == 'len' for o_ in (s1[2], s1[3])):
                    truth = (tk_ != 0) if tk_ is not None else True
                    if truth == (s1[1] == 'Eq') and (x_, None) is not None and any(a_ == x_ for (a_, _) in eq_edges):
                        good = True
            nok += good
        if npaths and nok == npaths:
            esc = []
    R.add('LEN-2', v, 'acceptance-on-raw-extents-needs-terminated-last-line', not esc and bool(eq_edges), site(v, v.span['lo']),
          'the validator can accept a record on equal raw extents alone, without knowing that the last line is terminated: %s' % (
              bool(esc) or not eq_edges) + ' (a CRLF record whose unterminated quality line is one longer than the sequence is accepted)' * bool(esc or not eq_edges)
          + ' - the validator does not measure the trimmed lines itself (a private function does): not judged' * (not eq_edges and not lts),
          undecided=(not eq_edges and not lts))
    # the EOF completion site passes "unterminated"
    n = 0
    for b in prog.bodies.values():
        if not b.key.startswith('fastq::Reader::') or is_derive(b):
            continue
        d2 = DefUse(b)
        for blk in b.blocks:
            if blk.idx not in b.cfg.rset:
                continue
            for s in blk.stmts:
                if s.k == 'assign' and [p['name'] for p in s.place.proj if p['k'] == 'field'] == ['buf_pos', 'pos', '1']:
                    src = roots_of(b, s.rv.ops[0], d2) if s.rv.k in ('use', 'cast') else []
                    if src and all(r[0] == 'call' and r[1].callee.name == 'len' for r in src):
                        # record end := buffer length: the call of the validator after it must pass true
                        n += 1
                        okc = False
                        for x, t in b.calls():
                            if prog.local_callee_body(t.callee) is v and b.cfg.dominates(blk.idx, x):
                                flags = [a for a in t.args[1:] if a.is_const and a.j.get('ty') == 'bool']
                                okc = bool(flags) and all(a.const_int() == 1 for a in flags)
                        called_v = any(prog.local_callee_body(t.callee) is v and b.cfg.dominates(blk.idx, x) for x, t in b.calls())
                        R.add('LEN-2', b, 'eof-completion-asks-for-trimmed-comparison#%d' % n, okc, site(b, s.line), undecided=(not okc) and not called_v, detail=
                              'the record is completed at the end of the input (its last line has no terminator); the validator is %s the trimmed lengths' % ('told to compare' if okc else 'NOT told to compare'))
    R.floor('LEN-2', 2)


def utf8_rules(prog, R):
    """VIEW-6: the text accessors succeed exactly when the bytes are valid UTF-8: the verdict of every `str::from_utf8` of the
    record code reaches the caller (returned, `?`, inside the returned Option/Result) - it is not turned into "no value".  """
    from rules_err import SWALLOW, PROPAGATORS
    R.rule('VIEW-6', 'the result of every str::from_utf8 in the record accessors reaches the caller: it is not swallowed (ok(), unwrap_or.., is_ok, dropped)')
    n = 0
    for b in prog.bodies.values():
        if is_derive(b) or b.promoted_of is not None or not (b.file.endswith('fasta.rs') or b.file.endswith('fastq.rs') or b.file.endswith('lib.rs')):
            continue
        for x, t in b.calls():
            if not (t.callee and t.callee.path in ('std::str::from_utf8', 'core::str::from_utf8') and t.dest.is_local()):
                continue
            n += 1
            if t.dest.local == 0:
                R.add('VIEW-6', b, 'utf8-verdict#%d' % n, True, site(b, t.line), 'the result is the return value')
                continue
            sinks = forward_sinks(b, t.dest.local, follow_refs=True, through=PROPAGATORS)
            swallow = [nn for (k, nn, i, via) in sinks if k == 'call' and not via and nn.callee and nn.callee.path in SWALLOW and nn.callee.path != 'std::result::Result::map_err']
            drops = [nn for (k, nn, i, via) in sinks if k == 'drop' and not via]
            ret = any(k == 'ret' for (k, nn, i, via) in sinks) or any(k == 'call' and nn.callee and nn.callee.path == 'std::ops::Try::branch' for (k, nn, i, via) in sinks)
            bad = bool(swallow) or (bool(drops) and not ret)
            R.add('VIEW-6', b, 'utf8-verdict#%d' % n, not bad and ret, site(b, t.line),
                  'result of from_utf8: %s' % ('swallowed by %s (an invalid text silently becomes "no value")' % swallow[0].callee.path if swallow else
                                               'dropped' if bad else 'reaches the caller' if ret else 'ends in a place this rule does not follow'),
                  undecided=(not bad) and not ret)


def ser_validation_rules(prog, R):
    """SER-4: a deserialiser that validates what it reads (`#[serde(try_from = "..")]`) must accept everything the reader can
    store in a set.  Two contradictions with facts of the reader are decided; a validation that shows neither is not judged."""
    R.rule('SER-4', 'a validating deserialiser of a record set does not reject states the reader produces: an offset the reader sets to the buffer length is '
                    'not required to be smaller than the buffer length; entries of the offsets vector beyond the logical record count (stale, kept for reuse) are not validated')
    from flow import is_buffer_call
    cg = prog.call_graph()
    for fmt in ('fasta', 'fastq'):
        ty = '%s::RecordSet' % fmt
        entry = [b for b in prog.bodies.values() if b.promoted_of is None and re.match(r'<%s as std::convert::TryFrom(<.*>)?>::try_from$' % re.escape(ty), b.key)]
        # ... and a hand-written Serialize of the set (the derived one is `<mod>::_::<impl Serialize for T>::serialize`)
        entry += [b for b in prog.bodies.values() if b.promoted_of is None and re.match(r'<%s as .*Serialize>::serialize$' % re.escape(ty), b.key)]
        if not entry:
            continue          # no validating conversion / hand-written serialiser: nothing to judge (SER-1 covers the derived impls)
        scope = set()
        work = [b.path for b in entry]
        while work:
            q = work.pop()
            if q in scope or q not in prog.bodies:
                continue
            scope.add(q)
            work += list(cg.get(q, ()))
            work += [c.path for c in prog.closures_of(prog.bodies[q])]
        scope = [prog.bodies[q] for q in sorted(scope) if prog.bodies[q].file.endswith('%s.rs' % fmt)]
        # ---- fact 1: offsets the reader sets to the length of its buffer
        lenfields = {}
        for b in prog.bodies.values():
            if not b.key.startswith('%s::Reader::' % fmt) or is_derive(b):
                continue
            du = DefUse(b)
            for blk in b.blocks:
                if blk.idx not in b.cfg.rset:
                    continue
                for st in blk.stmts:
                    if st.k != 'assign' or st.place.local != 1 or st.rv.k not in ('use', 'cast'):
                        continue
                    names = tuple(q['name'] for q in st.place.proj if q['k'] == 'field')
                    if names[:1] != ('buf_pos',) or len(names) < 2:
                        continue
                    rs = roots_of(b, st.rv.ops[0], du)
                    if rs and all(r[0] == 'call' and r[1].callee and r[1].callee.name == 'len' and
                                  any(x[0] == 'call' and is_buffer_call(prog, x[1].callee) for x in roots_of(b, r[1].args[0], du, through_calls=identity_through)) for r in rs):
                        lenfields[names[1:]] = site(b, st.line)
        n = 0
        for b in scope:
            du = DefUse(b)
            for blk in b.blocks:
                if blk.idx not in b.cfg.rset:
                    continue
                for st in blk.stmts:
                    if st.k != 'assign' or st.rv.k != 'bin' or st.rv.j['op'] not in ('Lt', 'Le', 'Gt', 'Ge'):
                        continue
                    sides = []
                    for o in st.rv.ops:
                        kind = None
                        if not o.is_const:
                            rs = roots_of(b, o, du)
                            def fpath(r):
                                # field path into a BufferPosition: of a parameter of that type, or of the item of an iteration over the offsets
                                if r[0] == 'arg' and 'BufferPosition' in b.local_tys[r[1]]:
                                    return tuple(q[1] for q in r[-1])
                                if r[0] == 'call' and r[1].callee is not None and r[1].callee.name in ('next', 'next_back') and r[1].dest.is_local() and 'BufferPosition' in b.local_tys[r[1].dest.local]:
                                    return tuple(q[1] for q in r[-1] if q[2] is None)
                                return None
                            if rs and all(fpath(r) in lenfields for r in rs):
                                kind = ('field', fpath(rs[0]))
                            elif rs and all((r[0] == 'arg' and b.local_tys[r[1]].strip() == 'usize' and not r[-1]) or (r[0] == 'call' and r[1].callee and r[1].callee.name == 'len') for r in rs):
                                kind = ('len',)
                        sides.append(kind)
                    if None in sides or {sides[0][0], sides[1][0]} != {'field', 'len'}:
                        continue
                    field_first = sides[0][0] == 'field'
                    fld = sides[0][1] if field_first else sides[1][1]
                    op = st.rv.j['op']
                    # on which side of the comparison does "offset == length" fall: with the (certainly invalid) offset > length ?
                    with_invalid = (op, field_first) in (('Lt', True), ('Ge', True), ('Gt', False), ('Le', False))
                    n += 1
                    R.add('SER-4', b, 'offset-may-equal-buffer-length#%d' % n, not with_invalid, site(b, st.line),
                          'the validation compares %s with the buffer length (%s): the value "offset = length" %s; the reader stores the buffer length into that offset at %s (a record ending with the input)' % (
                              '.'.join(fld), op, 'is treated like an offset beyond the buffer: such sets are rejected' if with_invalid else 'is accepted', lenfields[fld]))
        # ---- fact 2: a set with a logical record count keeps stale entries behind it
        adt = prog.adts.get(ty)
        counted = bool(adt) and any(fd['ty'].strip() == 'usize' for fd in adt['variants'][0]['fields'])
        if counted:
            for b in scope:
                du = DefUse(b)
                bounded = any(t.callee and (t.callee.path in ('std::iter::Iterator::take',) or (t.callee.path in SLICE_INDEX and 'Range' in ' '.join(t.callee.targs))) for _, t in b.calls())
                for x, t in b.calls():
                    if not (t.callee and t.callee.name in ('iter', 'into_iter', 'last', 'first') and t.args):
                        continue
                    rs = roots_of(b, t.args[0], du, through_calls=identity_through)
                    vec = rs and all(r[0] == 'arg' and r[-1] for r in rs) and 'BufferPosition' in (t.callee.resolved or '') + ' '.join(t.callee.targs)
                    if not vec:
                        continue
                    n += 1
                    R.add('SER-4', b, 'only-counted-entries-validated#%d' % n, bounded, site(b, t.line),
                          'the offsets vector is walked / asked for its last entry %s by the record count: entries behind the count are leftovers of earlier batches (kept for reuse) and say nothing about the records of the set' % (
                              'bounded' if bounded else 'NOT bounded'))
