"""FSM-* and SEEK-1 (DESIGN appendix A.3) — properties C01, C02, C04, C05, C06."""
import re
from flow import *
from mir import roots_of, DefUse, Place
from fsm import Interp, Heap, E, B, TOP, UNIT, classify
from rules_par import find_call, unwrap_aggs
from rules_err import is_derive, refill_fn

_cache = {}


def initial_heap(prog, fmt):
    """abstract state established by the public constructor (read from its aggregate)"""
    try:
        wc = prog.get('%s::Reader::with_capacity' % fmt)
    except KeyError:
        return None
    h = Heap(state='?', complete=False, setc='old', dirty=False, pushed=False, bufclr=False, filled=True, full=False)
    if fmt == 'fastq':
        h['inc'] = '?'
    for blk in wc.blocks:
        for s in blk.stmts:
            if s.k == 'assign' and s.rv.k == 'agg' and s.rv.j.get('adt', '').endswith('::Reader'):
                for name, op in zip(s.rv.j['fields'], s.rv.ops):
                    if name == 'state':
                        for r in roots_of(wc, op):
                            if r[0] == 'agg':
                                h['state'] = r[1].rv.j.get('variant', '?')
                    if name == 'incomplete_pos':
                        for r in roots_of(wc, op):
                            if r[0] == 'agg':
                                h['inc'] = r[1].rv.j.get('variant', '?')
    return h


def explore(prog, fmt):
    """most-general client: closure of the abstract reader states under all public reading
    operations.  Returns dict with states, transitions, exits per op, interpreter."""
    if fmt in _cache:
        return _cache[fmt]
    it = Interp(prog, fmt)
    h0 = initial_heap(prog, fmt)
    ops = {}
    for name, key, extra in (('next', '%s::Reader::next', []),
                             ('read_record_set_exact(None)', '%s::Reader::read_record_set_exact', ['rset', 'none']),
                             ('read_record_set_exact(Some)', '%s::Reader::read_record_set_exact', ['rset', 'some']),
                             ('seek', '%s::Reader::seek', ['pos'])):
        try:
            ops[name] = (prog.get(key % fmt), extra)
        except KeyError:
            ops[name] = None
    states = {}
    trans = []
    work = [h0]
    while work:
        h = work.pop()
        core = Heap((k, v) for k, v in h.items() if k in ('state', 'inc', 'complete', 'full'))
        fk = core.freeze()
        if fk in states:
            continue
        states[fk] = core
        for name, spec in ops.items():
            if spec is None:
                continue
            body, extra = spec
            hin = core.copy()
            hin['setc'] = 'old'
            hin['dirty'] = False
            hin['pushed'] = False
            hin['bufclr'] = False
            hin['filled'] = True      # per activation: states left by failed refills are exempt (DESIGN 9.3)
            args = [('rself',)]
            for e in extra:
                if e == 'rset':
                    args.append(('rset',))
                elif e == 'none':
                    args.append(E('Option', 'None'))
                elif e == 'some':
                    args.append(E('Option', 'Some', ('ge1',)))   # requested count: n >= 1 (documented precondition)
                else:
                    args.append(TOP)
            nviol = len(it.violations)
            outs = it.run_fn(body, hin, args)
            for (rv, hout) in outs:
                if name == 'seek':
                    hout['complete'] = False
                cls = classify(rv)
                trans.append((fk, name, cls, hout.freeze()))
                nxt = Heap((k, v) for k, v in hout.items() if k in ('state', 'inc', 'complete', 'full'))
                work.append(nxt)
    res = dict(interp=it, states=states, trans=trans, ops=ops, h0=h0)
    _cache[fmt] = res
    return res


def hdesc(frozen):
    d = dict(frozen)
    s = 'state=%s' % d.get('state')
    if d.get('full') not in (None, False):
        s += ',buffer-full=%s' % d['full']
    if 'inc' in d:
        s += ',incomplete=%s' % d['inc']
    s += ',located=%s' % d.get('complete')
    return s


def run(prog, R):
    R.rule('BUF-2', 'within one activation, an end-of-input verdict (buffer().len() < capacity()) is never taken after the buffer was altered (consume/make_room/reserve/seek) without a successful refill in between, and no operation returns successfully with an altered, un-refilled buffer (decided path-sensitively by the abstract interpreter)')
    R.rule('GROW-7', 'over all call histories (without failed refills): the buffer is only enlarged after an end-of-input test found it full since the last refill / compaction - i.e. the record really does not fit')
    R.rule('FSM-T', 'every exit of a reading operation that returns a format error leaves the reader in its terminal state (over all reachable abstract states)')
    R.rule('FSM-E', 'from the terminal state every reading operation returns None and changes nothing; an operation returns None only in the terminal state')
    R.rule('FSM-P', 'over all call histories: the reader advances only over a located record and starts a search only when no located record is pending')
    R.rule('FSM-V', 'every path that assigns the record end offset and then reports success runs the validator in between (all completion sites)')
    R.rule('FSM-D', 'read_record_set, the owned iterators and the parallel fill_data are single delegating calls to the one state machine per format')
    R.rule('FSM-S1', 'no exit of a record-set read leaves positions that were pushed in this call without the bytes they refer to')
    R.rule('FSM-S2', 'a record pushed into the set in this call is delivered: after a push the call returns Some(Ok)')
    R.rule('FSM-S3', 'a record-set read that returns Some(Ok) delivered at least one record')
    R.rule('FSM-S4', 'the position list is emptied before the first push; the byte buffer is cleared immediately before it is extended with the whole reader buffer')
    R.rule('FSM-S5', 'while a record set under construction already holds records the buffer is not compacted: the resumed search is called with compaction forbidden')
    R.rule('SEEK-1', 'both branches of seek set the Positioned state and reset the same partial-search state; the far branch seeks the source to the target byte and refills')
    _cache.clear()
    for fmt in ('fasta', 'fastq'):
        ex = explore(prog, fmt)
        it = ex['interp']
        R.add('FSM-P', '%s::Reader' % fmt, 'roles', bool(it.advance) and bool(it.locate), 'src/%s.rs' % fmt,
              'advance = %s; search family = %s' % (sorted(strip_generics(x) for x in it.advance), sorted(strip_generics(x) for x in it.locate)),
              undecided=not (bool(it.advance) and bool(it.locate)))      # the roles are how the abstraction reads the code, not an obligation of the code
        if ex['h0'] is None or ex['h0']['state'] == '?':
            R.anchor_missing('FSM-P', '%s::Reader::with_capacity initial state' % fmt)
            continue
        # obligations: one per (reachable state, operation)
        seen_ops = set()
        for (fk, name, cls, hout) in ex['trans']:
            d_in = dict(fk)
            d_out = dict(hout)
            opfn = '%s::Reader::%s' % (fmt, name.split('(')[0])
            key_in = hdesc(fk)
            # FSM-T
            if cls == 'Some(Err(format))' or cls == 'Err(format)':
                R.add('FSM-T', opfn, 'format-error-is-terminal[%s]' % name, d_out['state'] == 'Finished', 'src/%s.rs' % fmt,
                      '%s from (%s) returns a format error and leaves state=%s' % (name, key_in, d_out['state']))
            # FSM-E
            if d_in['state'] == 'Finished' and name != 'seek':
                same = all(d_out.get(k) == d_in.get(k) for k in ('state', 'inc', 'complete'))
                R.add('FSM-E', opfn, 'sticky-end[%s]' % name, cls == 'None' and same, 'src/%s.rs' % fmt,
                      '%s in the terminal state returns %s and %s the state' % (name, cls, 'keeps' if same else 'CHANGES'))
            if cls == 'None':
                R.add('FSM-E', opfn, 'none-only-when-finished[%s]' % name, d_out['state'] == 'Finished', 'src/%s.rs' % fmt,
                      '%s from (%s) returns None leaving state=%s' % (name, key_in, d_out['state']))
            # BUF-2 (path-sensitive half): a successful return never leaves an altered, un-refilled buffer
            if cls in ('Some(Ok)', 'Ok'):
                R.add('BUF-2', opfn, 'ok-return-has-refilled-buffer[%s]' % name, d_out.get('filled') is not False, 'src/%s.rs' % fmt,
                      '%s from (%s) returns %s with the buffer %s' % (name, key_in, cls, 'altered and not refilled' if d_out.get('filled') is False else 'filled'))
            # FSM-S*
            if name.startswith('read_record_set_exact'):
                pushed = d_out.get('setc') == 1
                ever = bool(d_out.get('pushed'))
                if pushed and d_out.get('dirty'):
                    R.add('FSM-S1', opfn, 'exit=%s' % cls, False, 'src/%s.rs' % fmt,
                          '%s from (%s) returns %s with record offsets pushed in this call over bytes that were not copied (set unusable: panic or records of an earlier batch)' % (name, key_in, cls))
                else:
                    R.add('FSM-S1', opfn, 'consistent[%s]' % cls, True, 'src/%s.rs' % fmt, 'exit %s: set consistent' % cls)
                if ever and cls != 'Some(Ok)':
                    R.add('FSM-S2', opfn, 'exit=%s' % cls, False, 'src/%s.rs' % fmt,
                          '%s from (%s) returns %s after records were pushed and advanced over: those records are never delivered' % (name, key_in, cls))
                if cls == 'Some(Ok)':
                    R.add('FSM-S3', opfn, 'ok-implies-nonempty[%s]' % name, pushed and not d_out.get('dirty'), 'src/%s.rs' % fmt,
                          'Some(Ok) with %s' % ('>=1 record and bytes copied' if pushed and not d_out.get('dirty') else 'an empty or inconsistent set'))
                    R.add('FSM-S2', opfn, 'delivered[%s]' % name, True, 'src/%s.rs' % fmt, 'pushed records are delivered on the Some(Ok) exit')
        for (rule, fnk, inst, site_, detail) in it.violations:
            if fnk.startswith(fmt):
                R.add(rule, fnk, inst, False, site_, detail)
        # positive FSM-P instances: every advance / search call site that was reached
        for b in prog.bodies.values():
            if not b.key.startswith('%s::Reader::' % fmt):
                continue
            n = 0
            for x, t in b.calls():
                cb = prog.local_callee_body(t.callee)
                if cb is not None and cb.path in it.locate:
                    n += 1
                    bad = [v for v in it.violations if v[1] == b.key and v[2] == 'search-while-record-pending']
                    if not bad:
                        R.add('FSM-P', b, 'search-call#%d' % n, True, site(b, t.line), 'search call respects the protocol in every reachable abstract state')
            for blk in b.blocks:
                for st in blk.stmts:
                    if id(st) in it.advance_stmts:
                        n += 1
                        bad = [v for v in it.violations if v[2] == 'advance-without-located-record']
                        if not bad:
                            R.add('FSM-P', b, 'advance#%d' % n, True, site(b, st.line), 'the advance over a record is only reached with a located record pending, in every reachable abstract state')
    for fmt in ('fasta', 'fastq'):
        try:
            b = prog.get('%s::Reader::read_record_set_exact' % fmt)
        except KeyError:
            continue
        it = _cache[fmt]['interp']
        n = 0
        for x, t in b.calls():
            cb = prog.local_callee_body(t.callee)
            if cb is not None and cb.path in it.locate and any((not a.is_const and b.local_tys[a.place.local] == 'bool') or (a.is_const and a.j.get('ty') == 'bool') for a in t.args):
                n += 1
                bad = [v for v in it.violations if v[0] == 'FSM-S5' and v[1] == b.key]
                if not bad:
                    R.add('FSM-S5', b, 'resume-call#%d' % n, True, site(b, t.line), 'in every reachable abstract state the buffer may only be moved while the set is still empty')
    for fmt in ('fasta', 'fastq'):
        it = _cache[fmt]['interp']
        bad = [v for v in it.violations if v[0] == 'GROW-7']
        R.add('GROW-7', '%s::Reader' % fmt, 'growth-only-with-full-buffer', not bad and it.events.get('grow', 0) > 0, 'src/%s.rs' % fmt,
              'the growth call was reached %d times in the exploration, always with the buffer known to be full' % it.events.get('grow', 0) if it.events.get('grow', 0)
              else 'the growth call was not seen by the abstraction (it is made in a function that does not take the reader): not judged',
              undecided=(not bad and it.events.get('grow', 0) == 0))
    # the end-of-input test itself: where the length of the buffer is compared with the capacity, it is compared as it is
    # (mutation survey: `len() + 1 < capacity()` passes the suite)
    from scev import Sym as _Sym, Aff as _Aff, Path as _Path
    for fmt in ('fasta', 'fastq'):
        for b_ in prog.bodies.values():
            if not b_.key.startswith('%s::Reader::' % fmt) or b_.promoted_of is not None:
                continue
            if not any(t_.callee and t_.callee.is_('buffer_redux::BufReader::capacity') for _, t_ in b_.calls()):
                continue
            init_ = _Path()
            init_.env[1] = _Aff.sym(('self',))
            loops_ = b_.cfg.natural_loops()
            starts_ = [0] + sorted(loops_)
            seen_ = set()
            for s0 in starts_:
                for p_ in _Sym(prog, b_).run(s0, stops=set(loops_), init=init_):
                    for (cx_, d_, tk_) in p_.conds:
                        s1 = d_.single() if isinstance(d_, _Aff) else None
                        if not (isinstance(s1, tuple) and s1[0] == 'cmp' and s1[1] in ('Lt', 'Le', 'Gt', 'Ge')):
                            continue
                        diff = s1[2] - s1[3]
                        lens = [k for k in diff.t if isinstance(k, tuple) and k[0] == 'len' and isinstance(k[1], tuple) and k[1][0] == 'buffer']
                        caps = [k for k in diff.t if isinstance(k, tuple) and k[0] == 'call' and 'capacity' in str(k[1])]
                        if len(lens) == 1 and len(caps) == 1 and len(diff.t) == 2 and diff.t[lens[0]] == -diff.t[caps[0]] and (cx_, s1[1]) not in seen_:
                            seen_.add((cx_, s1[1]))
                            # the comparison must separate length < capacity from length >= capacity
                            strict = (s1[1] in ('Lt', 'Ge')) if diff.t[lens[0]] > 0 else (s1[1] in ('Gt', 'Le'))
                            R.add('GROW-7', b_, 'end-of-input-test-compares-length-with-capacity', diff.c == 0 and strict, site(b_, b_.blocks[cx_].term.line),
                                  'buffer length %+d compared (%s) with the capacity: the buffer counts as "not full = end of input" exactly when length < capacity' % (diff.c * (1 if diff.t[lens[0]] > 0 else -1), s1[1]))
    R.floor('GROW-7', 2)
    R.floor('FSM-S5', 2)
    R.floor('FSM-P', 12)
    R.floor('FSM-E', 8)
    R.floor('FSM-T', 3)
    R.floor('FSM-S1', 4)
    R.floor('FSM-S3', 4)
    flow_rules(prog, R)
    return fsm_evidence()


def fsm_evidence():
    out = {}
    for fmt, ex in _cache.items():
        out['fsm_%s' % fmt] = {
            'abstract_states': [hdesc(k) for k in sorted(ex['states'], key=str)],
            'states': len(ex['states']),
            'transitions': len(set(ex['trans'])),
            'interpreter_steps': ex['interp'].n_steps,
            'summaries': len(ex['interp'].memo),
            'sample_transitions': ['(%s) --%s--> %s (%s)' % (hdesc(a), n, c, hdesc(h)) for (a, n, c, h) in sorted(set(ex['trans']), key=str)[:40]],
        }
    return out


# --------------------------------------------------------------------------- FLOW rules of the group

def flow_rules(prog, R):
    # ---------------- FSM-V (fastq)
    validators = [b for b in prog.bodies.values() if b.key.startswith('fastq::Reader::') and not is_derive(b) and any(
        s.k == 'assign' and s.rv.k == 'agg' and s.rv.j.get('variant') == 'UnequalLengths' for blk in b.blocks for s in blk.stmts)]
    if len(validators) != 1:
        R.anchor_missing('FSM-V', 'the validator (function constructing fastq::Error::UnequalLengths), found %d' % len(validators))
    else:
        val = validators[0]
        n = 0

        from fsm import validator_set
        vset = validator_set(prog, 'fastq')
        # the same question asked path-sensitively by the abstract interpreter: whenever the search reports a located record
        # whose end was assigned in this call, the validator has run since
        exq = _cache.get('fastq')
        ghost_ok = None
        if exq is not None and not exq['interp'].imprecise and exq['interp'].events.get('located-with-end', 0) > 0:
            ghost_ok = not [v for v in exq['interp'].violations if v[0] == 'FSM-V']
            if ghost_ok:
                R.add('FSM-V', 'fastq::Reader', 'located-records-are-validated', True, 'src/fastq.rs',
                      'in all %d explored activations in which the search reported a record it completed, the validator had run after the end offset was assigned' % exq['interp'].events['located-with-end'])
        from rules_err import ok_return_blocks
        readers = [b for b in prog.bodies.values() if b.key.startswith('fastq::Reader::') and b.path not in vset and '{closure' not in b.key]

        def holds(b, blkidx, depth):
            """from block blkidx of b (where the record end was assigned, or a helper that assigns it was called) no success
            return is reached without validation; a helper that never validates hands the obligation to its callers.
            -> (ok, explanation)"""
            vblocks = set(x for x, t in b.calls() if prog.local_callee_body(t.callee) is not None and prog.local_callee_body(t.callee).path in vset)
            okret = ok_return_blocks(b)
            reach = b.cfg.reach_from(blkidx, removed=vblocks, include_start=True)
            # the assignment block itself may call the validator at its end
            bad = [r for r in okret if r in reach and blkidx not in vblocks]
            rets = [x for x in b.cfg.reachable if b.blocks[x].term.k == 'return' and x in reach]
            if not vblocks and depth < 3 and (bad or (not okret and rets)):
                callers = [(cb_, x) for cb_ in readers for x, t in cb_.calls() if prog.local_callee_body(t.callee) is b]
                if callers:
                    res = [(cb_, holds(cb_, x, depth + 1)) for cb_, x in callers]
                    if all(r[0] for _, r in res):
                        return True, 'not validated here; every caller (%s) validates after the call' % ', '.join(sorted(set(cb_.key.rsplit('::', 1)[-1] for cb_, _ in res)))
                    return False, 'not validated here, and not after the call in %s' % ', '.join(sorted(set(cb_.key.rsplit('::', 1)[-1] for cb_, r in res if not r[0])))
            return (not bad and bool(vblocks)), 'success return reachable without validation: %s' % bad

        def judge(b, blkidx, line, depth, via):
            nonlocal n
            n += 1
            okv, why = holds(b, blkidx, 0)
            R.add('FSM-V', b, 'completion-site#%d' % n, okv or bool(ghost_ok), site(b, line),
                  'record end assigned; %s%s' % (why, '' if okv or not ghost_ok else
                                                  ' - only on paths on which no record is reported as located (decided path-sensitively, see located-records-are-validated)'))
        for b in readers:
            for blk in b.blocks:
                if blk.idx not in b.cfg.rset:
                    continue
                for s_ in blk.stmts:
                    if s_.k == 'assign' and [p['name'] for p in s_.place.proj if p['k'] == 'field'] == ['buf_pos', 'pos', '1'] and not (s_.rv.k == 'use' and s_.rv.ops[0].is_const):
                        judge(b, blk.idx, s_.line, 0, [])
        R.floor('FSM-V', 3)
    # ---------------- FSM-D
    deleg = []
    for fmt in ('fasta', 'fastq'):
        deleg.append(('%s::Reader::read_record_set' % fmt, '%s::Reader::read_record_set_exact' % fmt, 'none-arg'))
        deleg.append(('<%s::RecordsIter as std::iter::Iterator>::next' % fmt, '%s::Reader::next' % fmt, None))
        deleg.append(('<%s::RecordsIntoIter as std::iter::Iterator>::next' % fmt, '%s::Reader::next' % fmt, None))
        deleg.append(('<%s::Reader as parallel::Reader>::fill_data' % fmt, '%s::Reader::read_record_set' % fmt, None))
    def max_ops(body, targets, depth=0, seen=()):
        """(max number of calls of the state-machine operation along any path, other &mut-self reader calls made)
        counted through private helpers; a call inside a loop counts as 2 (more than one)"""
        loops = body.cfg.natural_loops()
        inloop = set(x for bl in loops.values() for x in bl)
        per_block = {}
        others = []
        for x, t in body.calls():
            cb = prog.local_callee_body(t.callee)
            if cb is None:
                continue
            n = 0
            if cb.key in targets:
                n = 1
            elif depth < 3 and cb.key not in seen and ('::Reader::' in cb.key or '::Records' in cb.key or any(
                    '&mut' in cb.local_tys[i] and '::Reader<' in cb.local_tys[i] for i in range(1, cb.arg_count + 1))):
                # a private helper: a reader method, or a free function that is handed the reader (`next_owned(rdr)`)
                n, o2 = max_ops(cb, targets, depth + 1, seen + (body.key,))
                # (a function that only wraps the reader into an adaptor - `records()` - touches nothing: no store through it, no call with it)
                touches = any(st.k == 'assign' and st.place.local == 1 and st.place.proj for blk_ in cb.blocks for st in blk_.stmts) or bool(list(cb.calls()))
                if n == 0 and touches and cb.arg_count >= 1 and '&mut' in cb.local_tys[1] and ('::Reader::' in cb.key or '::Reader<' in cb.local_tys[1]):
                    others.append(cb.key)
                others += o2
            elif cb.arg_count >= 1 and '&mut' in cb.local_tys[1] and '::Reader<' in cb.local_tys[1]:
                others.append(cb.key)
            if n:
                per_block[x] = per_block.get(x, 0) + (n if x not in inloop else 2)
        # longest path over the acyclic condensation: a simple DFS on the CFG without back edges
        back = set(body.cfg.back_edges())
        memo = {}

        def longest(x):
            if x in memo:
                return memo[x]
            memo[x] = 0
            best = 0
            for y in body.cfg.succ.get(x, ()):
                if (x, y) in back:
                    continue
                best = max(best, longest(y))
            memo[x] = per_block.get(x, 0) + best
            return memo[x]
        return (longest(0) if body.blocks else 0), others

    for key, target, extra in deleg:
        try:
            b = prog.get(key)
        except KeyError:
            R.anchor_missing('FSM-D', key)
            continue
        n, others = max_ops(b, {target})
        ok = n == 1 and not others
        detail = 'calls of %s along a path: at most %d (through private helpers); other mutating reader calls: %s' % (target, n, sorted(set(others)) or 'none')
        if ok and extra == 'none-arg':
            tc = [t for _, t in b.calls() if prog.local_callee_body(t.callee) is not None and prog.local_callee_body(t.callee).key == target]
            if len(tc) == 1:
                ops = unwrap_aggs(b, tc[0].args[-1], [('adt', 'None')])
                ok = ops is not None
                detail += '; plain sets ask for no exact count: %s' % ok
        R.add('FSM-D', b, 'delegates', ok, site(b, b.span['lo']), detail)
    R.floor('FSM-D', 8)
    # ---------------- FSM-S4 (events of the abstract interpreter; robust to helper extraction)
    for fmt in ('fasta', 'fastq'):
        ex = _cache.get(fmt)
        if ex is None:
            continue
        it = ex['interp']
        try:
            b = prog.get('%s::Reader::read_record_set_exact' % fmt)
        except KeyError:
            R.anchor_missing('FSM-S4', '%s::Reader::read_record_set_exact' % fmt)
            continue
        bad = [v for v in it.violations if v[0] == 'FSM-S4']
        ok_exits = [t for t in ex['trans'] if t[1].startswith('read_record_set_exact') and t[2] == 'Some(Ok)']
        R.add('FSM-S4', b, 'old-batch-cleared-first', not [v for v in bad if v[2] == 'push-before-old-batch-cleared'] and bool(ok_exits), site(b, b.span['lo']),
              'in every reachable abstract state the offsets of the previous batch are cleared before the first push')
        R.add('FSM-S4', b, 'bytes-copied-whole-after-clear', not [v for v in bad if v[2] in ('partial-buffer-copied', 'bytes-appended-without-clear')] and bool(ok_exits), site(b, b.span['lo']),
              'every Some(Ok) exit copied the whole reader buffer into the cleared byte buffer of the set (checked together with FSM-S1: a set left without this copy is dirty)')
    R.floor('FSM-S4', 4)
    # ---------------- SEEK-1
    from rules_err import refill_family
    refills = refill_family(prog)
    for fmt, partial in (('fasta', 'search_pos'), ('fastq', 'incomplete_pos')):
        try:
            b = prog.get('%s::Reader::seek' % fmt)
        except KeyError:
            R.anchor_missing('SEEK-1', '%s::Reader::seek' % fmt)
            continue
        du = DefUse(b)
        okret = [x for x in b.cfg.reachable if any(s.k == 'assign' and s.place.local == 0 and s.rv.k == 'agg' and s.rv.j.get('variant') == 'Ok' for s in b.blocks[x].stmts)]

        def blocks_where(pred):
            return set(x for x in b.cfg.reachable if pred(b.blocks[x]))
        set_pos = set()
        other_state = set()
        for x in b.cfg.reachable:
            for st in b.blocks[x].stmts:
                if st.k == 'assign' and st.place.local == 1 and [p['name'] for p in st.place.proj if p['k'] == 'field'] == ['state']:
                    rs = roots_of(b, st.rv.ops[0], du) if st.rv.k == 'use' else []
                    if any(r[0] == 'agg' and r[1].rv.j.get('variant') == 'Positioned' for r in rs):
                        set_pos.add(x)
                    else:
                        other_state.add(x)
        # a different state may only be assigned on paths that do not return successfully
        positioned = not any(r in b.cfg.reach_from(o, include_start=True) for o in other_state for r in okret)
        reset_partial = blocks_where(lambda blk: any(s.k == 'assign' and s.place.local == 1 and [p['name'] for p in s.place.proj if p['k'] == 'field'] == [partial] for s in blk.stmts))
        reset_buf = set(x for x, t in b.calls() if prog.local_callee_body(t.callee) is not None and 'BufferPosition' in prog.local_callee_body(t.callee).key
                        and t.args and all(r[0] == 'arg' and [q[1] for q in r[-1]] == ['buf_pos'] for r in roots_of(b, t.args[0], du)))
        # ... the same three updates made by a private method of the reader on all of its paths (`self.set_next_record(i)`)
        def helper_summary(h):
            hdu = DefUse(h)
            rets = [x for x in h.cfg.reachable if h.blocks[x].term.k == 'return']
            def hmust(blocks):
                return bool(blocks) and all(r_ not in h.cfg.reach_from(0, removed=blocks, include_start=True) for r_ in rets)
            sp, other, rp, rb = set(), set(), set(), set()
            for x in h.cfg.reachable:
                for st in h.blocks[x].stmts:
                    if st.k == 'assign' and st.place.local == 1:
                        nm = [p['name'] for p in st.place.proj if p['k'] == 'field']
                        if nm == ['state']:
                            rs_ = roots_of(h, st.rv.ops[0], hdu) if st.rv.k == 'use' else []
                            (sp if any(r_[0] == 'agg' and r_[1].rv.j.get('variant') == 'Positioned' for r_ in rs_) else other).add(x)
                        if nm == [partial]:
                            rp.add(x)
            for x, t_ in h.calls():
                cb_ = prog.local_callee_body(t_.callee)
                if cb_ is not None and 'BufferPosition' in cb_.key and t_.args and all(r_[0] == 'arg' and [q[1] for q in r_[-1]] == ['buf_pos'] for r_ in roots_of(h, t_.args[0], hdu)):
                    rb.add(x)
            pw = set(x for x in h.cfg.reachable for st in h.blocks[x].stmts if st.k == 'assign' and st.place.local == 1 and [p['name'] for p in st.place.proj if p['k'] == 'field'] == ['position'])
            return hmust(sp) and not other, bool(other), hmust(rp), hmust(rb), hmust(pw)
        helper_posw = set()
        for x, t in b.calls():
            h = prog.local_callee_body(t.callee)
            if h is None or not h.key.startswith('%s::Reader::' % fmt) or h is b or not t.args or '{closure' in h.key:
                continue
            if not all(r_[0] == 'arg' and r_[1] == 1 and not r_[-1] for r_ in roots_of(b, t.args[0], du)):
                continue
            m_sp, may_other, m_rp, m_rb, m_pw = helper_summary(h)
            if m_pw:
                helper_posw.add(x)
            if m_sp:
                set_pos.add(x)
            elif may_other:
                other_state.add(x)
            if m_rp:
                reset_partial.add(x)
            if m_rb:
                reset_buf.add(x)
        positioned = not any(r in b.cfg.reach_from(o, include_start=True) for o in other_state for r in okret)
        srcseek = [(x, t) for x, t in b.calls() if t.callee and t.callee.is_('std::io::Seek::seek')]
        fills = [(x, t) for x, t in b.calls() if prog.local_callee_body(t.callee) in refills]
        # ... or in a closure of this function (`seek(..).and_then(|_| fill_buf(..))`)
        for cb in prog.bodies.values():
            if cb.key.startswith(b.key + '::{closure') and cb.promoted_of is None:
                fills += [(None, t) for _, t in cb.calls() if prog.local_callee_body(t.callee) in refills]
        n = 0
        for r in okret:
            n += 1
            def must(blocks):
                return bool(blocks) and r not in b.cfg.reach_from(0, removed=blocks, include_start=True)
            far = any(x in b.cfg.dom.get(r, ()) or b.cfg.dominates(x, r) for x, _ in srcseek)
            far_undecided = False
            ok1 = must(set_pos) and positioned
            ok2 = must(reset_partial)
            ok3 = must(reset_buf)
            det = 'state:=Positioned %s, %s reset %s, buffer offsets reset %s' % (ok1, partial, ok2, ok3)
            ok = ok1 and ok2 and ok3
            if far:
                # seek target: SeekFrom::Start(to.byte) ; then refill
                tgt_ok = False
                tgt_helper = False
                far_tgt_undecided = False
                for x, t in srcseek:
                    ops = unwrap_aggs(b, t.args[1], [('adt', 'Start')])
                    if ops:
                        rs = roots_of(b, ops[0], du)
                        tgt_ok = bool(rs) and all(q[0] == 'arg' and q[1] == 2 and [f[1] for f in q[-1]] == ['byte'] for q in rs)
                        # the target travels through a value built by a private function (`SeekTarget::Source(byte)` from `self.locate(to)`)
                        if not tgt_ok and rs and all(q[0] == 'call' and prog.local_callee_body(q[1].callee) is not None for q in rs):
                            tgt_helper = True
                helper_fill = not fills and any(prog.local_callee_body(t_.callee) is not None and prog.local_callee_body(t_.callee).key.startswith(('fasta::Reader::', 'fastq::Reader::')) and
                                                 prog.local_callee_body(t_.callee).arg_count >= 1 and '&mut' in prog.local_callee_body(t_.callee).local_tys[1] and
                                                 not is_buffer_call(prog, t_.callee) for _, t_ in b.calls())
                ok_wo_fill = ok and tgt_ok
                if ok and not tgt_ok and tgt_helper and bool(fills):
                    far_tgt_undecided = True
                ok = ok and tgt_ok and bool(fills)
                det += ', source seeks to Start(to.byte) %s (that the buffer is refilled before a successful return is BUF-2, decided path-sensitively)%s' % (tgt_ok, '; the refill is not called here directly (a private helper is): not judged' if (helper_fill and ok_wo_fill) else '')
                far_undecided = (helper_fill and ok_wo_fill) or far_tgt_undecided
            R.add('SEEK-1', b, '%s-branch' % ('far' if far else 'in-buffer'), ok, site(b, b.blocks[r].term.line or b.span['lo']), det, undecided=(not ok) and far and far_undecided)
        # position itself is set to the target
        posw = blocks_where(lambda blk: any(s.k == 'assign' and s.place.local == 1 and [p['name'] for p in s.place.proj if p['k'] == 'field'] == ['position'] for s in blk.stmts))
        posw |= helper_posw
        # `self.position.clone_from(to)`
        posw |= set(x for x, t in b.calls() if t.callee and t.callee.name == 'clone_from' and len(t.args) == 2 and
                    all(r_[0] == 'arg' and r_[1] == 1 and [q[1] for q in r_[-1]] == ['position'] for r_ in roots_of(b, t.args[0], du)) and bool(roots_of(b, t.args[0], du)) and
                    all(r_[0] == 'arg' and r_[1] == 2 for r_ in roots_of(b, t.args[1], du)))
        R.add('SEEK-1', b, 'position-set-to-target', bool(posw) and all(r not in b.cfg.reach_from(0, removed=posw, include_start=True) for r in okret), site(b, b.span['lo']),
              'self.position is assigned on every successful path')
    R.floor('SEEK-1', 6)
    # ---------------- SEEK-2: error exits of seek
    R.rule('SEEK-2', 'once seek has touched the source (the buffer content is gone), every way out of seek - error returns included - has reset the buffer offsets and the partial-search state, or made the reader terminal')
    for fmt, partial in (('fasta', 'search_pos'), ('fastq', 'incomplete_pos')):
        try:
            b = prog.get('%s::Reader::seek' % fmt)
        except KeyError:
            continue
        du = DefUse(b)
        srcseek = [(x, t) for x, t in b.calls() if t.callee and t.callee.is_('std::io::Seek::seek')]
        reset_buf = set(x for x, t in b.calls() if prog.local_callee_body(t.callee) is not None and 'BufferPosition' in prog.local_callee_body(t.callee).key
                        and t.args and all(r[0] == 'arg' and [q[1] for q in r[-1]] == ['buf_pos'] for r in roots_of(b, t.args[0], du)))
        finished = set()
        for x in b.cfg.reachable:
            for st in b.blocks[x].stmts:
                if st.k == 'assign' and st.place.local == 1 and [p['name'] for p in st.place.proj if p['k'] == 'field'] == ['state']:
                    rs = roots_of(b, st.rv.ops[0], du) if st.rv.k == 'use' else []
                    if any(r[0] == 'agg' and r[1].rv.j.get('variant') == 'Finished' for r in rs):
                        finished.add(x)
        n = 0
        for sx, stt in srcseek:
            n += 1
            # offsets reset before the source is touched on every path, or after it on every exit
            before = sx not in b.cfg.reach_from(0, removed=reset_buf, include_start=True)
            after_escape = [r for r in b.cfg.exits if r in b.cfg.reach_from(sx, removed=reset_buf | finished, include_start=False)]
            ok = before or not after_escape
            R.add('SEEK-2', b, 'consistent-on-every-exit#%d' % n, ok, site(b, stt.line),
                  'after the source was repositioned, seek can return (e.g. with the error of the seek or of the refill) while the buffer offsets still refer to the discarded buffer: %s' % (not ok))
    R.floor('SEEK-2', 2)
    # ---------------- SEEK-3: a failed repositioning discards the buffer
    R.rule('SEEK-3', 'when seek fails after it has tried to reposition the source, the buffer is emptied (consume(buffer length)) before returning: its content no longer corresponds to the recorded position, and a later seek must not take the in-buffer shortcut into it')
    for fmt in ('fasta', 'fastq'):
        try:
            b = prog.get('%s::Reader::seek' % fmt)
        except KeyError:
            continue
        du = DefUse(b)
        srcseek = [(x, t) for x, t in b.calls() if t.callee and t.callee.is_('std::io::Seek::seek')]
        okret = set(x for x in b.cfg.reachable if any(st.k == 'assign' and st.place.local == 0 and st.rv.k == 'agg' and st.rv.j.get('variant') == 'Ok' for st in b.blocks[x].stmts))
        discard = set(x for x, t in b.calls() if is_discard_all(prog, b, t, du))
        maybe_discard = set(x for x, t in b.calls() if consume_amount_is_opaque(prog, b, t, du))
        n = 0
        for sx, stt in srcseek:
            n += 1
            # exits reachable from the source seek without passing an Ok-return assignment = failure exits
            fail_exits = [r for r in b.cfg.exits if r in b.cfg.reach_from(sx, removed=okret)]
            bad = [r for r in fail_exits if r in b.cfg.reach_from(sx, removed=okret | discard)]
            # code this rule cannot see into: closures that capture the reader (`.map_err(|e| { self.discard(); .. })`) and private
            # helpers taking the reader: a failure path through them is not judged
            opaque = set()
            for x, t in b.calls():
                cbx = prog.local_callee_body(t.callee)
                if cbx is not None and t.args and cbx.key.startswith(('fasta::Reader::', 'fastq::Reader::')) and '&mut' in cbx.local_tys[1] and not is_buffer_call(prog, t.callee):
                    opaque.add(x)
                for a in t.args:
                    if not a.is_const:
                        for r in roots_of(b, a, du):
                            if r[0] == 'agg' and r[1].rv.j.get('agg') == 'closure' and any(
                                    any(q[0] == 'arg' and q[1] == 1 for q in roots_of(b, o, du)) for o in r[1].rv.ops if not o.is_const):
                                opaque.add(x)
            bad_vis = [r for r in bad if r in b.cfg.reach_from(sx, removed=okret | discard | opaque | maybe_discard)]
            R.add('SEEK-3', b, 'failed-seek-discards-buffer#%d' % n, not bad and bool(fail_exits), site(b, stt.line),
                  'seek can fail after trying to reposition the source and return with the old buffer content still in place: %s%s' % (bool(bad), ' (only through closures / helpers this rule does not look into: not judged)' if bad and not bad_vis else ''),
                  undecided=bool(bad) and not bad_vis)
            # ... and the reader is terminal: where the source stands after a failed seek is unspecified, a later
            # read would parse from an arbitrary offset (found by the mutation survey: the tests never read after a failed seek)
            finished = set()
            for x in b.cfg.reachable:
                for st in b.blocks[x].stmts:
                    if st.k == 'assign' and st.place.local == 1 and [q['name'] for q in st.place.proj if q['k'] == 'field'] == ['state']:
                        rs = roots_of(b, st.rv.ops[0], du) if st.rv.k == 'use' else []
                        if any(r[0] == 'agg' and r[1].rv.j.get('variant') == 'Finished' for r in rs):
                            finished.add(x)
            bad2 = [r for r in fail_exits if r in b.cfg.reach_from(sx, removed=okret | finished)]
            bad2_vis = [r for r in bad2 if r in b.cfg.reach_from(sx, removed=okret | finished | opaque)]
            R.add('SEEK-3', b, 'failed-seek-makes-reader-terminal#%d' % n, not bad2 and bool(fail_exits), site(b, stt.line),
                  'seek can fail after trying to reposition the source and leave the reader in a state in which later reads continue from wherever the source stands: %s%s' % (bool(bad2), ' (only through closures / helpers this rule does not look into: not judged)' if bad2 and not bad2_vis else ''),
                  undecided=bool(bad2) and not bad2_vis)
    R.floor('SEEK-3', 4)
    run_seek4(prog, R)
    # ---- formats whose code the abstraction cannot follow precisely: the state-machine rules give no verdict there
    for fmt in ('fasta', 'fastq'):
        ex = _cache.get(fmt)
        def candidate_full_test(fmt_):
            """a comparison of two non-constant quantities that decides a `state = Finished` (an end-of-input test the
            abstraction did not recognise, e.g. on cached copies of length and capacity)"""
            from rules_view import controlling_switches
            for b_ in prog.bodies.values():
                if not b_.key.startswith('%s::Reader::' % fmt_):
                    continue
                fin = [x for x in b_.cfg.reachable for st in b_.blocks[x].stmts if st.k == 'assign' and st.rv.k == 'agg' and st.rv.j.get('variant') == 'Finished']
                for x in fin:
                    for a in controlling_switches(b_, x):
                        for r in roots_of(b_, b_.blocks[a].term.discr):
                            if r[0] == 'call' and prog.local_callee_body(r[1].callee) is not None and prog.local_callee_body(r[1].callee).local_tys[0] == 'bool':
                                # the test sits in a private predicate (`fn input_exhausted(&self) -> bool`)
                                hb_ = prog.local_callee_body(r[1].callee)
                                from mir import data_deps
                                for blk_ in hb_.blocks:
                                    for st_ in blk_.stmts:
                                        if st_.k == 'assign' and st_.rv.k == 'bin' and st_.rv.j['op'] in ('Lt', 'Le', 'Gt', 'Ge') and not any(o.is_const for o in st_.rv.ops):
                                            if all(any(d[0] == 'arg' and d[1] == 1 for d in data_deps(hb_, o)) and not any(d[0] == 'arg' and d[1] != 1 for d in data_deps(hb_, o)) for o in st_.rv.ops):
                                                return True
                            if r[0] == 'bin' and r[1].rv.j['op'] in ('Lt', 'Le', 'Gt', 'Ge') and not any(o.is_const for o in r[1].rv.ops):
                                # both sides are quantities of the reader itself (fields of self / calls on them), not of an argument
                                from mir import data_deps
                                own = True
                                for o in r[1].rv.ops:
                                    dd = data_deps(b_, o)
                                    if any(d[0] == 'arg' and d[1] != 1 for d in dd) or not any(d[0] == 'arg' and d[1] == 1 for d in dd):
                                        own = False
                                if own:
                                    return True
            return False
        if ex is not None and ex['interp'].events.get('full-evidence', 0) == 0 and candidate_full_test(fmt):
            # the "buffer is full" test (len < capacity feeding the end-of-input decision) was not recognised anywhere
            # (e.g. it is made on cached copies of the two quantities): GROW-7 has nothing to reason from
            for it_ in R.items:
                if it_['rule'] == 'GROW-7' and not it_['ok'] and ('%s::' % fmt) in it_['key'] and 'end-of-input-test' not in it_['key']:
                    it_['ok'] = True
                    it_['undecided'] = True
                    it_['detail'] = 'no verdict (no "buffer full" test recognised in this shape of the code) - the abstraction reported: %s' % it_['detail'][:160]
        if ex is None or not ex['interp'].imprecise:
            continue
        why = '; '.join(sorted(ex['interp'].imprecise))
        for it_ in R.items:
            if it_['rule'] in ('FSM-T', 'FSM-E', 'FSM-P', 'FSM-V', 'FSM-S1', 'FSM-S2', 'FSM-S3', 'FSM-S4', 'FSM-S5', 'GROW-7', 'BUF-2') and not it_['ok'] \
                    and ('%s::' % fmt) in it_['key']:
                it_['ok'] = True
                it_['undecided'] = True
                it_['detail'] = 'no verdict (%s) - the abstraction reported: %s' % (why, it_['detail'][:200])


# ---------------- SEEK-4 / SEEK-5 (added after seeded change C05-r3b and the mutation survey)
def _rebase(sym, old, new):
    if sym == old:
        return new
    if isinstance(sym, tuple):
        return tuple(_rebase(x, old, new) for x in sym)
    return sym


def _record_start_location(prog, fmt):
    """symbolic location (relative to the BufferPosition) that `BufferPosition::reset(start)` assigns `start` to"""
    from scev import Sym, Aff, Path
    try:
        rb = prog.get('%s::BufferPosition::reset' % fmt)
    except KeyError:
        return None
    init = Path()
    init.env[1] = Aff.sym(('bp',))
    init.env[2] = Aff.sym(('start',))
    locs = set()
    for p in Sym(prog, rb).run(0, init=init):
        for (_, loc, val) in p.writes:
            if val == Aff.sym(('start',)):
                locs.add(loc)
    return locs.pop() if len(locs) == 1 else None


def run_seek4(prog, R):
    from scev import Sym, Aff, Path
    R.rule('SEEK-4', 'the path of seek that returns without touching the source is only taken under conditions that imply 0 <= offset < length of the buffer for the offset it makes the new record start (the byte at the target is in the buffer): a guard that also admits offset == length takes the shortcut into an empty, never-filled buffer and the reader then reports the end of the input')
    R.rule('SEEK-5', 'seek arithmetic, solved symbolically: the new record start of the in-buffer shortcut is  old record start + target byte - current byte  (file offsets at the time seek is entered), the search restarts at it (or one byte behind it), and after repositioning the source the record start is 0')
    for fmt in ('fasta', 'fastq'):
        try:
            b = prog.get('%s::Reader::seek' % fmt)
        except KeyError:
            R.anchor_missing('SEEK-4', '%s::Reader::seek' % fmt)
            continue
        where = site(b, b.span['lo'])
        rloc = _record_start_location(prog, fmt)
        if rloc is None:
            R.anchor_missing('SEEK-5', '%s::BufferPosition::reset assigns its argument to one field' % fmt)
            continue
        SELF, TO = ('self',), ('to',)
        bp = ('f', SELF, None, 'buf_pos')
        start_loc = _rebase(rloc, ('bp',), bp)
        S = Aff.sym(start_loc)
        T = Aff.sym(('f', TO, None, 'byte'))
        P = Aff.sym(('f', ('f', SELF, None, 'position'), None, 'byte'))
        X = S + T - P
        L = ('len', ('buffer', 0))
        init = Path()
        init.env[1] = Aff.sym(SELF)
        init.env[2] = Aff.sym(TO)
        paths = Sym(prog, b, inline='multi').run(0, init=init)
        oks = [p for p in paths if p.end[0] == 'return' and getattr(p.env.get(0), 'variant', None) == 'Ok']
        cg_ = prog.call_graph()
        seek_memo = {}

        def seeks_source(pth, stack=()):
            if pth in seek_memo:
                return seek_memo[pth]
            if pth in stack:
                return False
            bb_ = prog.bodies.get(pth)
            v_ = bool(bb_) and (any(t_.callee and t_.callee.is_('std::io::Seek::seek') for _, t_ in bb_.calls()) or any(seeks_source(q_, stack + (pth,)) for q_ in cg_.get(pth, ())))
            seek_memo[pth] = v_
            return v_

        def touches_source(p):
            return any(t.callee and (t.callee.is_('std::io::Seek::seek') or (prog.local_callee_body(t.callee) is not None and seeks_source(prog.local_callee_body(t.callee).path))) for (_, t, _) in p.effects)
        near = [p for p in oks if not touches_source(p)]
        far = [p for p in oks if touches_source(p)]
        if not near:
            R.add('SEEK-4', b, 'no-in-buffer-shortcut', True, where, 'every successful return repositions the source')
        n = 0
        for p in near:
            n += 1
            resets = [a for (_, t, a) in p.effects if t.callee and (prog.local_callee_body(t.callee) is not None) and prog.local_callee_body(t.callee).key.endswith('BufferPosition::reset')]
            newstart = resets[-1][1] if resets and len(resets[-1]) == 2 else p.store.get(start_loc)
            # `usize::try_from(pos)`: its Ok payload is pos itself, and taking the Ok arm means pos >= 0
            tf = {}
            for (bx_, t_, a_) in p.effects:
                if t_.callee and t_.callee.path in ('std::convert::TryFrom::try_from', 'std::convert::TryInto::try_into') and len(a_) == 1 and isinstance(a_[0], Aff):
                    tf[('call', t_.callee.path, bx_)] = a_[0]
            if isinstance(newstart, Aff):
                newstart = newstart.subst(lambda sy: tf.get(sy[1]) if (isinstance(sy, tuple) and sy[0] == 'f' and sy[1] in tf and sy[2] == 'Ok') else None)
            def untf0(v_):
                return v_.subst(lambda sy: tf.get(sy[1]) if (isinstance(sy, tuple) and sy[0] == 'f' and sy[1] in tf and sy[2] == 'Ok') else None)
            ok5 = isinstance(newstart, Aff) and newstart == X
            opaque_ns = isinstance(newstart, Aff) and any(isinstance(sy, tuple) and sy[0] in ('call', 'try') for sy in newstart.syms())
            const_ns = isinstance(newstart, Aff) and newstart.is_const()     # a literal start on a "shortcut" path: a path the path enumeration cannot rule out (two tests of one fact), not a computed offset
            R.add('SEEK-5', b, 'shortcut-offset=start+target-current', ok5, where,
                  'new record start on the in-buffer path = %r (required: %r)%s' % (newstart, X, ' - computed by a call this rule does not look into / a literal: not judged' if (opaque_ns or const_ns) and not ok5 else ''),
                  undecided=(not ok5) and (opaque_ns or const_ns))
            if fmt == 'fasta':
                sp = p.store.get(('f', SELF, None, 'search_pos'))
                oksp = isinstance(sp, Aff) and isinstance(newstart, Aff) and (sp - newstart).is_const() and (sp - newstart).c in (0, 1)
                if isinstance(sp, Aff):
                    sp = untf0(sp)
                    oksp = isinstance(newstart, Aff) and (sp - newstart).is_const() and (sp - newstart).c in (0, 1)
                R.add('SEEK-5', b, 'shortcut-search-restarts-at-record-start', oksp, where, 'search position on the in-buffer path = %r, record start = %r' % (sp, newstart),
                      undecided=(not oksp) and (opaque_ns or const_ns))
            # SEEK-4: conditions of the path imply 0 <= X < L
            if not isinstance(newstart, Aff):
                R.add('SEEK-4', b, 'shortcut-requires-offset-below-buffer-length', False, where, 'the new record start is not an affine value')
                continue
            preds = []
            conds_ = []
            for (_, d, taken) in p.conds:
                s1 = d.single() if isinstance(d, Aff) else None
                if isinstance(s1, tuple) and s1[0] == 'cmp':
                    conds_.append((s1[1], s1[2], s1[3], taken))
                elif isinstance(s1, tuple) and s1[0] == 'discr' and s1[1] in tf and taken == 0:
                    conds_.append(('Ge', tf[s1[1]], Aff.const(0), 1))      # try_from(x) is Ok:  x >= 0
                elif isinstance(s1, tuple) and s1[0] == 'inrange' and (taken is None or taken != 0):
                    conds_.append(('Ge', s1[3], s1[1], 1))      # (lo..hi).contains(&x) taken:  lo <= x
                    conds_.append(('Lt', s1[3], s1[2], 1))      #                                x < hi
            def untf(v_):
                return v_.subst(lambda sy: tf.get(sy[1]) if (isinstance(sy, tuple) and sy[0] == 'f' and sy[1] in tf and sy[2] == 'Ok') else None) if isinstance(v_, Aff) else v_
            conds_ = [(op_, untf(a_), untf(c_), tk_) for (op_, a_, c_, tk_) in conds_]
            for (op, a, c, taken) in conds_:
                diff = a - c
                # diff = alpha * newstart' + beta * L + k   where newstart' = newstart without its constant
                base = newstart - Aff.const(newstart.c)
                alpha = None
                for k0, v0 in base.t.items():
                    if diff.t.get(k0, 0) % v0 == 0:
                        alpha = diff.t.get(k0, 0) // v0
                    break
                if alpha is None:
                    continue
                rest = diff - base.scale(alpha)
                beta = rest.t.get(L, 0)
                rest = rest - Aff.sym(L).scale(beta)
                if rest.t or (alpha == 0 and beta == 0):
                    continue
                preds.append((op, alpha, beta, rest.c, taken))

            def holds(u, ln):
                for (op, alpha, beta, k, taken) in preds:
                    v = alpha * (u - newstart.c) + beta * ln + k
                    t = {'Lt': v < 0, 'Le': v <= 0, 'Gt': v > 0, 'Ge': v >= 0, 'Eq': v == 0, 'Ne': v != 0}[op]
                    want_true = taken is None or taken != 0
                    if t != want_true:
                        return False
                return True
            bad_hi = [(u, ln) for ln in (0, 1, 5, 1 << 20) for u in (ln, ln + 1, ln + (1 << 30)) if holds(u, ln)]
            bad_lo = [(u, ln) for ln in (1, 5, 1 << 20) for u in (-1, -2, -(1 << 30)) if holds(u, ln)]
            # no recognisable comparison at all although the path is conditional (the test is made by a call this rule
            # does not model): not judged; an unconditional shortcut is a violation
            # a comparison of the offset with something this rule cannot interpret (a cached length field, a call result)
            uninterpreted = False
            base_ns = newstart - Aff.const(newstart.c)
            for (op_, a_, c_, tk_) in conds_:
                dd_ = a_ - c_
                k0_ = next(iter(base_ns.t), None)
                if k0_ is not None and dd_.t.get(k0_, 0) != 0:
                    rest_ = dd_ - base_ns.scale(dd_.t[k0_] // base_ns.t[k0_]) if dd_.t[k0_] % base_ns.t[k0_] == 0 else dd_
                    if any(sy != L and not (isinstance(sy, tuple) and sy[0] == 'call' and 'capacity' in str(sy[1])) for sy in rest_.t):
                        uninterpreted = True      # (the capacity is recognised - and it is not the length of the buffer)
            nojudge = ((not preds) or (uninterpreted and bool(bad_hi))) and (opaque_ns or uninterpreted or any(isinstance(d, Aff) and any(isinstance(sy, tuple) and sy[0] == 'call' for sy in d.syms()) for (_, d, _) in p.conds))
            R.add('SEEK-4', b, 'shortcut-requires-offset-below-buffer-length', bool(preds) and not bad_hi, where,
                  '%d comparisons of the new record start with the buffer length / constants guard the shortcut; admitted although offset >= length: %s%s' % (len(preds), bad_hi[:2], ' (the offset is the result of a call: not judged)' if nojudge else ''), undecided=nojudge or const_ns)
            R.add('SEEK-4', b, 'shortcut-requires-nonnegative-offset', bool(preds) and not bad_lo, where,
                  'admitted although offset < 0: %s' % (bad_lo[:2],), undecided=nojudge or const_ns)
        for p in far[:1]:
            resets = [a for (_, t, a) in p.effects if t.callee and (prog.local_callee_body(t.callee) is not None) and prog.local_callee_body(t.callee).key.endswith('BufferPosition::reset')]
            v = resets[-1][1] if resets and len(resets[-1]) == 2 else p.store.get(start_loc)
            okf = all((a[1] if len(a) == 2 else None) == Aff.const(0) for a in resets) and bool(resets) if resets else v == Aff.const(0)
            # a value this rule cannot evaluate on the far path (`buf_index.unwrap_or(0)` with buf_index from a combinator chain): not judged
            opaque_v = (not okf) and isinstance(v, Aff) and any(isinstance(sy, tuple) and sy[0] in ('call', 'try') for sy in v.syms())
            R.add('SEEK-5', b, 'far-path-record-start=0', okf, where, 'record start after repositioning the source = %r (the refilled buffer starts at the target)' % (v,), undecided=opaque_v)
    R.floor('SEEK-4', 4)
    R.floor('SEEK-5', 4)
