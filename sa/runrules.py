#!/usr/bin/env python3
"""debug: runrules.py <facts.json> <module> [rule-prefix...] — run a rule module and list results"""
import sys, importlib
sys.path.insert(0, __file__.rsplit('/', 1)[0])
from flow import *
from collections import Counter
prog = Program.load(sys.argv[1])
R = Results()
importlib.import_module(sys.argv[2]).run(prog, R)
import props
props.layout_guard(prog, R)
pref = sys.argv[3:]
print(sorted(Counter((i['rule'], i['ok']) for i in R.items).items()))
for i in R.items:
    if pref and not any(i['rule'].startswith(p) for p in pref) and i['ok']:
        continue
    print('???' if i.get('undecided') else 'OK ' if i['ok'] else 'BAD', i['key'], '|', i['site'].split(' ')[0], '|', i['detail'][:230])
