"""Affine symbolic evaluation of MIR paths and induction-variable recurrences ("scalar evolution").

Nothing is executed: values are affine expressions  c0 + sum(ci * symbol_i)  over *symbols* that name
unknown quantities structurally (the value of a local at a loop header, the result of a call site, a
field of such a value, the length of such a value).  References are transparent (`&p` and `*p` denote
the value stored at p), aggregates are kept as tuples, stores to projected places are kept in a store
keyed by the symbolic location.  Paths are enumerated (switches on non-constant values fork); a path
ends at a stop block, at a return, or when it would revisit a block.

Used by rules_scan.py to decide the recurrences of accumulator loops that the tests only exercise for
a handful of buffer sizes."""
from mir import Place
from flow import is_buffer_call


class Aff:
    __slots__ = ('t', 'c')

    def __init__(self, t=None, c=0):
        self.t = {k: v for k, v in (t or {}).items() if v != 0}
        self.c = c

    @staticmethod
    def sym(s):
        return Aff({s: 1}, 0)

    @staticmethod
    def const(n):
        return Aff({}, n)

    def __add__(self, o):
        t = dict(self.t)
        for k, v in o.t.items():
            t[k] = t.get(k, 0) + v
        return Aff(t, self.c + o.c)

    def __neg__(self):
        return Aff({k: -v for k, v in self.t.items()}, -self.c)

    def __sub__(self, o):
        return self + (-o)

    def scale(self, n):
        return Aff({k: v * n for k, v in self.t.items()}, self.c * n)

    def __eq__(self, o):
        return isinstance(o, Aff) and self.t == o.t and self.c == o.c

    def __ne__(self, o):
        return not self.__eq__(o)

    def __hash__(self):
        return hash((tuple(sorted(self.t.items(), key=repr)), self.c))

    def is_const(self):
        return not self.t

    def single(self):
        """the symbol if the value is exactly one symbol, else None"""
        if self.c == 0 and len(self.t) == 1:
            (k, v), = self.t.items()
            if v == 1:
                return k
        return None

    def syms(self):
        out = set()

        def walk(s):
            out.add(s)
            if isinstance(s, tuple):
                for x in s:
                    if isinstance(x, tuple):
                        walk(x)
                    elif isinstance(x, Aff):
                        for k2 in x.t:
                            walk(k2)
        for k in self.t:
            walk(k)
        return out

    def subst(self, f):
        """replace every top-level symbol s by f(s) (an Aff) where f(s) is not None"""
        r = Aff({}, self.c)
        for k, v in self.t.items():
            x = f(k)
            r = r + (x.scale(v) if x is not None else Aff({k: v}))
        return r

    def __repr__(self):
        def nm(s):
            if isinstance(s, tuple):
                if len(s) == 1:
                    return str(s[0])
                if s[0] == 'f' and len(s) == 4:
                    return nm(s[1]) + ('::' + str(s[2]) if s[2] else '') + '.' + str(s[3])
                return str(s[0]) + '(' + ','.join(nm(x) if isinstance(x, tuple) else str(x) for x in s[1:]) + ')'
            return str(s)
        parts = []
        for k, v in sorted(self.t.items(), key=repr):
            parts.append(('' if v == 1 else '-' if v == -1 else '%d*' % v) + nm(k))
        if self.c or not parts:
            parts.append(str(self.c))
        return ' + '.join(parts).replace('+ -', '- ')


class Agg:
    """aggregate value: kind ('tuple' | adt path), variant name, fields"""
    __slots__ = ('kind', 'variant', 'fields')

    def __init__(self, kind, variant, fields):
        self.kind, self.variant, self.fields = kind, variant, fields

    def __repr__(self):
        return '%s%s(%s)' % (self.kind if self.kind != 'tuple' else '', ('::' + self.variant) if self.variant else '', ', '.join(map(repr, self.fields)))


class Path:
    def __init__(self):
        self.env = {}       # local -> value
        self.store = {}     # location symbol -> value
        self.effects = []   # (block, Term, [arg values])  in order
        self.writes = []    # (block, location symbol, value) in order
        self.conds = []     # (block, discr value, taken)
        self.blocks = []
        self.end = None     # ('stop', block) | ('return', block) | ('cycle', block) | ('dead', block)

    def fork(self):
        p = Path()
        p.env = dict(self.env)
        p.store = dict(self.store)
        p.effects = list(self.effects)
        p.writes = list(self.writes)
        p.conds = list(self.conds)
        p.blocks = list(self.blocks)
        return p


LEN_CALLS = ('core::slice::len', 'std::vec::Vec::len', 'core::str::len')


class Sym:
    """evaluator of one body"""

    def __init__(self, prog, body, alters_buffer=(), inline=False, depth=0):
        self.prog = prog
        self.b = body
        self.alters_buffer = set(alters_buffer)   # names of local functions that refill / alter the reader buffer
        self.inline = inline      # evaluate small loop-free single-path crate callees in place (helper extraction is transparent)
        self.depth = depth

    # ---- values
    def local(self, p, l):
        if l not in p.env:
            p.env[l] = Aff.sym(('H', l))
        return p.env[l]

    def project(self, p, v, proj, variant=None):
        """value of v.<proj>; v is Aff or Agg"""
        k = proj['k']
        if k == 'deref':
            return v, None
        if k == 'downcast':
            return v, proj.get('variant') or proj.get('name') or proj.get('vi')
        if k == 'field':
            if isinstance(v, Agg):
                i = proj['i']
                if i < len(v.fields) and (variant is None or v.variant is None or str(variant) == str(v.variant)):
                    return v.fields[i], None
                return Aff.sym(('undef',)), None
            s = v.single()
            if isinstance(s, tuple) and s[0] == 'try' and str(variant) == 'Continue' and proj['i'] == 0:
                loc = ('f', s[1], s[2], '0')
                return p.store.get(loc, Aff.sym(loc)), None
            loc = ('f', s if s is not None else ('expr', repr(v)), str(variant) if variant is not None else None, proj.get('name', str(proj['i'])))
            if loc in p.store:
                return p.store[loc], None
            return Aff.sym(loc), None
        if k == 'constindex' and not proj.get('from_end'):
            s = v.single() if isinstance(v, Aff) else None
            return Aff.sym(('idx', s if s is not None else ('expr', repr(v)), repr(Aff.const(int(proj.get('offset', 0)))))), None
        if k == 'index':
            s = v.single()
            iv = self.local(p, proj['local'])
            return Aff.sym(('idx', s if s is not None else ('expr', repr(v)), repr(iv))), None
        return Aff.sym(('proj', repr(v), k)), None

    def read_place(self, p, pl):
        v = self.local(p, pl.local)
        variant = None
        for pr in pl.proj:
            v, nv = self.project(p, v, pr, variant)
            variant = nv
        return v

    def loc_of(self, p, pl):
        """symbolic location of a projected place (None for plain locals)"""
        if not pl.proj:
            return None
        v = self.local(p, pl.local)
        variant = None
        loc = None
        for pr in pl.proj:
            k = pr['k']
            if k == 'deref':
                continue
            if k == 'downcast':
                variant = pr.get('variant') or pr.get('name') or pr.get('vi')
                continue
            if k == 'field':
                if isinstance(v, Agg):
                    return ('aggfield', pl.local, tuple(repr(x) for x in pl.proj))
                s = v.single()
                loc = ('f', s if s is not None else ('expr', repr(v)), str(variant) if variant is not None else None, pr.get('name', str(pr['i'])))
                v = p.store.get(loc, Aff.sym(loc))
                variant = None
            else:
                return ('other', pl.local, repr(pl.proj))
        return loc

    def operand(self, p, op):
        if op.k == 'const':
            n = op.const_int()
            if n is not None:
                return Aff.const(n)
            if 'promoted' in op.j:
                return Aff.sym(('promoted', op.j['promoted']))
            return Aff.sym(('const', op.j.get('s')))
        return self.read_place(p, op.place)

    def rvalue(self, p, rv, where):
        k = rv.k
        if k in ('use', 'cast'):
            return self.operand(p, rv.ops[0])
        if k in ('ref', 'rawptr'):
            return self.read_place(p, rv.place)
        if k == 'bin':
            a = self.operand(p, rv.ops[0])
            c = self.operand(p, rv.ops[1])
            op = rv.j['op']
            if isinstance(a, Aff) and isinstance(c, Aff):
                if op in ('Add', 'AddUnchecked', 'AddWithOverflow'):
                    return a + c
                if op in ('Sub', 'SubUnchecked', 'SubWithOverflow'):
                    return a - c
                if op in ('Mul', 'MulUnchecked') and (a.is_const() or c.is_const()):
                    return c.scale(a.c) if a.is_const() else a.scale(c.c)
                if a.is_const() and c.is_const() and op in ('Lt', 'Le', 'Gt', 'Ge', 'Eq', 'Ne'):
                    return Aff.const(int({'Lt': a.c < c.c, 'Le': a.c <= c.c, 'Gt': a.c > c.c, 'Ge': a.c >= c.c, 'Eq': a.c == c.c, 'Ne': a.c != c.c}[op]))
            if isinstance(a, Aff) and isinstance(c, Aff) and op in ('Lt', 'Le', 'Gt', 'Ge', 'Eq', 'Ne'):
                return Aff.sym(('cmp', op, a, c))
            return Aff.sym(('bin', op, repr(a), repr(c)))
        if k == 'un':
            a = self.operand(p, rv.ops[0])
            if rv.j['op'] == 'PtrMetadata':
                s = a.single() if isinstance(a, Aff) else None
                return Aff.sym(('len', s if s is not None else ('expr', repr(a))))
            if rv.j['op'] == 'Neg' and isinstance(a, Aff):
                return -a
            return Aff.sym(('un', rv.j['op'], repr(a)))
        if k == 'agg':
            vals = [self.operand(p, o) for o in rv.ops]
            a = rv.j.get('agg')
            if a == 'adt':
                return Agg(rv.j.get('adt'), rv.j.get('variant'), vals)
            return Agg('tuple' if a == 'tuple' else a, None, vals)
        if k == 'discr':
            v = self.read_place(p, rv.place)
            if isinstance(v, Agg):
                std = {'None': 0, 'Some': 1, 'Ok': 0, 'Err': 1, 'Continue': 0, 'Break': 1}
                if v.variant in std and str(v.kind).rsplit('::', 1)[-1].split('<')[0] in ('Option', 'Result', 'ControlFlow'):
                    return Aff.const(std[v.variant])      # a value built on this path: its variant is known
                # ... also for an enum of the crate (`SeekTarget::Buffered(pos)` built by an inlined helper); explicit discriminants excluded
                try:
                    from mir import strip_generics as _sg
                    adt = self.prog.adts.get(_sg(str(v.kind)))
                    if adt and adt.get('kind') == 'enum' and self.inline:
                        names = [x['name'] for x in adt['variants']]
                        if v.variant in names and not any(x.get('discr') not in (None, i) for i, x in enumerate(adt['variants'])):
                            return Aff.const(names.index(v.variant))
                except Exception:
                    pass
                return Aff.sym(('variant', v.variant))
            s = v.single()
            return Aff.sym(('discr', s if s is not None else ('expr', repr(v))))
        return Aff.sym(('rv', k, where))

    def assign(self, p, blk, pl, val):
        if not pl.proj:
            p.env[pl.local] = val
            return
        loc = self.loc_of(p, pl)
        p.store[loc] = val
        p.writes.append((blk, loc, val))

    def call(self, p, blk, t):
        args = [self.operand(p, a) for a in t.args]
        p.effects.append((blk, t, args))
        c = t.callee
        if c is not None and c.is_('buffer_redux::BufReader::buf_len'):
            # the length of the reader's buffer, asked from the BufReader directly
            return Aff.sym(('len', ('buffer', p.env.get('#buf', 0))))
        if c is not None and (c.is_(*LEN_CALLS) or (c.name == 'len' and len(args) == 1)):
            a = args[0]
            s = a.single() if isinstance(a, Aff) else None
            return Aff.sym(('len', s if s is not None else ('expr', repr(a))))
        if c is not None and c.path == 'std::ops::Try::branch' and len(args) == 1 and isinstance(args[0], Aff) and args[0].single() is not None:
            # `x?`: the Continue payload is the Some / Ok payload of x
            return Aff.sym(('try', args[0].single(), 'Ok' if 'Result' in (c.resolved or '') else 'Some'))
        if c is not None and c.name == 'contains' and 'ops::Range' in c.path and len(args) == 2 and isinstance(args[0], Agg) and len(args[0].fields) == 2 \
                and all(isinstance(f, Aff) for f in args[0].fields) and isinstance(args[1], Aff):
            # (lo..hi).contains(&x): kept structured so that rules can read  lo <= x < hi  off a path condition
            return Aff.sym(('inrange', args[0].fields[0], args[0].fields[1], args[1]))
        if c is not None and args and isinstance(args[0], Agg) and args[0].variant in ('Some', 'None', 'Ok', 'Err') and c.path.startswith(('std::option::Option::', 'std::result::Result::')):
            # accessors of an Option / Result whose variant is known on this path (built by an inlined helper)
            a0 = args[0]
            good = a0.variant in ('Some', 'Ok')
            if c.name in ('unwrap_or',) and len(args) == 2:
                return a0.fields[0] if good and a0.fields else args[1]
            if c.name in ('unwrap', 'expect') and good and a0.fields:
                return a0.fields[0]
            if c.name in ('is_some', 'is_ok'):
                return Aff.const(int(good))
            if c.name in ('is_none', 'is_err'):
                return Aff.const(int(not good))
        if c is not None and is_buffer_call(self.prog, c):
            # the reader buffer: one symbol per buffer content (bumped by every call that alters the buffer)
            return Aff.sym(('buffer', p.env.get('#buf', 0)))
        if c is not None and (c.is_('std::io::BufRead::consume', 'buffer_redux::BufReader::make_room', 'buffer_redux::BufReader::reserve',
                                    'std::io::Seek::seek', 'buffer_redux::BufReader::read_into_buf') or c.name in self.alters_buffer):
            p.env['#buf'] = p.env.get('#buf', 0) + 1
        if self.inline and c is not None and self.depth < 3:
            cb = self.prog.local_callee_body(c)
            if cb is not None and len(cb.blocks) <= 14 and not cb.cfg.natural_loops() and cb.arg_count == len(args):
                sub = Sym(self.prog, cb, self.alters_buffer, inline=True, depth=self.depth + 1)
                init = Path()
                for i, a in enumerate(args):
                    init.env[i + 1] = a
                init.env['#buf'] = p.env.get('#buf', 0)
                init.store = dict(p.store)
                qs = [q for q in sub.run(0, init=init) if q.end[0] == 'return']
                if self.inline == 'multi' and 2 <= len(qs) <= 6 and cb.local_tys[1:2] and cb.local_tys[1].startswith('&') and not cb.local_tys[1].startswith('&mut'):
                    # a small `&self` helper with a few outcomes (`fn buffer_index(&self, byte) -> Option<usize>`): one continuation
                    # of the caller's path per outcome, with the helper's conditions
                    outs = []
                    for q in qs:
                        pp = p.fork()
                        pp.store = q.store
                        pp.env['#buf'] = q.env.get('#buf', 0)
                        pp.effects += [(blk, t2, a2) for (_, t2, a2) in q.effects]
                        pp.writes += [(blk, loc, v) for (_, loc, v) in q.writes]
                        pp.conds += [(blk, d, tk) for (_, d, tk) in q.conds]
                        outs.append((pp, q.env.get(0, Aff.sym(('call', c.path, blk)))))
                    return outs
                if len(qs) == 1:
                    q = qs[0]
                    p.store = q.store
                    p.env['#buf'] = q.env.get('#buf', 0)
                    p.effects += [(blk, t2, a2) for (_, t2, a2) in q.effects]
                    p.writes += [(blk, loc, v) for (_, loc, v) in q.writes]
                    p.conds += [(blk, d, tk) for (_, d, tk) in q.conds]
                    return q.env.get(0, Aff.sym(('call', c.path, blk)))
        nm = c.path if c is not None else 'indirect'
        return Aff.sym(('call', nm, blk))

    # ---- paths
    def run(self, start, stops=(), init=None, limit=4000):
        """all paths from `start` until a stop block (not counting the start itself), a return or a revisit"""
        b = self.b
        first = init.fork() if init else Path()
        done = []
        work = [(start, first, True)]
        while work and len(done) < limit:
            x, p, is_start = work.pop()
            if not is_start and x in stops:
                p.end = ('stop', x)
                done.append(p)
                continue
            if x in p.blocks:
                p.end = ('cycle', x)
                done.append(p)
                continue
            p.blocks.append(x)
            blk = b.blocks[x]
            for i, st in enumerate(blk.stmts):
                if st.k == 'assign':
                    self.assign(p, x, st.place, self.rvalue(p, st.rv, (x, i)))
            t = blk.term
            if t.k == 'return':
                p.end = ('return', x)
                done.append(p)
            elif t.k == 'call':
                v = self.call(p, x, t)
                if isinstance(v, list):
                    for (pp, vv) in v:
                        self.assign(pp, x, t.dest, vv)
                        if t.target is None:
                            pp.end = ('dead', x)
                            done.append(pp)
                        else:
                            work.append((t.target, pp, False))
                    continue
                self.assign(p, x, t.dest, v)
                if t.target is None:
                    p.end = ('dead', x)
                    done.append(p)
                else:
                    work.append((t.target, p, False))
            elif t.k == 'switch':
                d = self.operand(p, t.discr)
                arms = list(t.targets) + [(None, t.otherwise)]
                if isinstance(d, Aff) and d.is_const():
                    tgt = next((tg for v, tg in t.targets if v == d.c), t.otherwise)
                    work.append((tgt, p, False))
                else:
                    # a second branch on a value this path has already branched on takes the same way
                    prev = [tk for (_, d0, tk) in p.conds if isinstance(d0, Aff) and isinstance(d, Aff) and d0 == d]
                    if prev:
                        tk = prev[-1]
                        tgt = next((tg for v, tg in t.targets if v == tk), None) if tk is not None else None
                        if tgt is None:
                            tgt = t.otherwise if (tk is None or tk not in [v for v, _ in t.targets]) else None
                        if tgt is not None:
                            p.conds.append((x, d, tk))
                            work.append((tgt, p, False))
                            continue
                    for v, tg in arms:
                        if b.blocks[tg].term.k == 'unreachable' and not b.blocks[tg].stmts:
                            continue
                        q = p.fork()
                        q.conds.append((x, d, v))
                        work.append((tg, q, False))
            elif t.k in ('goto', 'drop', 'assert'):
                work.append((t.j['target'], p, False))
            else:
                p.end = ('dead', x)
                done.append(p)
        return done


def recurrence(paths_back, local):
    """classify the update of `local` over one iteration: ('inc', delta) | ('latest', value) | ('same',) | ('mixed', ...)"""
    h = Aff.sym(('H', local))
    kinds = set()
    for p in paths_back:
        v = p.env.get(local, h)
        if not isinstance(v, Aff):
            kinds.add(('other', repr(v)))
            continue
        if v == h:
            kinds.add(('same',))
            continue
        d = v - h
        if not any(isinstance(s, tuple) and s[0] == 'H' for s in d.syms()):
            kinds.add(('inc', d))
        elif not any(isinstance(s, tuple) and s[0] == 'H' for s in v.syms()):
            kinds.add(('latest', v))
        else:
            kinds.add(('other', repr(v)))
    if len(kinds) == 1:
        return kinds.pop()
    return ('mixed', sorted(map(repr, kinds)))


def linear_preds(conds, base):
    """comparisons among the path conditions that constrain the affine quantity `base` (no constant part):
    those whose  lhs - rhs == alpha * base + k  -> [(op, alpha, k, taken)]"""
    out = []
    items = list(base.t.items())
    if not items:
        return out
    k0, v0 = items[0]
    for (_, d, taken) in conds:
        s1 = d.single() if isinstance(d, Aff) else None
        cmps = []
        if isinstance(s1, tuple) and s1[0] == 'cmp':
            cmps.append((s1[1], s1[2], s1[3], taken))
        elif isinstance(s1, tuple) and s1[0] == 'inrange' and (taken is None or taken != 0):
            cmps.append(('Ge', s1[3], s1[1], 1))
            cmps.append(('Lt', s1[3], s1[2], 1))
        for (op, a, c, tk) in cmps:
            diff = a - c
            co = diff.t.get(k0, 0)
            if co == 0 or co % v0 != 0:
                continue
            alpha = co // v0
            rest = diff - base.scale(alpha)
            if rest.t:
                continue
            out.append((op, alpha, rest.c, tk))
    return out


def preds_hold(preds, u):
    for (op, alpha, k, taken) in preds:
        v = alpha * u + k
        t = {'Lt': v < 0, 'Le': v <= 0, 'Gt': v > 0, 'Ge': v >= 0, 'Eq': v == 0, 'Ne': v != 0}[op]
        if t != (taken is None or taken != 0):
            return False
    return True


def slice_range(prog, body, self_sym):
    """(lo, hi) of the single `x[lo..hi]` in an accessor body, with its `self` named `self_sym`"""
    init = Path()
    init.env[1] = Aff.sym(self_sym)
    out = []
    for p in Sym(prog, body, inline=True).run(0, init=init):
        for (_, t, args) in p.effects:
            if t.callee and t.callee.is_('std::ops::Index::index') and len(args) == 2 and isinstance(args[1], Agg) and len(args[1].fields) == 2:
                out.append((args[1].fields[0], args[1].fields[1]))
    return out[0] if len(out) == 1 else None


def pretty(body, text):
    """replace H(<local>) by the source name of the local"""
    import re
    return re.sub(r'H\((\d+)\)', lambda m: '`%s`' % body.names.get(int(m.group(1)), '_' + m.group(1)), str(text))
