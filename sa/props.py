"""Property table: which rule groups run for which property, which rule ids count for it, the
level claimed and the clauses that are NOT decided (reported in evidence on every run)."""

# rule group name -> module.function
GROUPS = {
    'par': ('rules_par', 'run'),
}

# property -> dict(groups, rules, level, undecided, trusted)
COMMON_TRUST = [
    'rustc nightly MIR construction, borrow checking and drop elaboration (facts are read from optimized_mir at -Zmir-opt-level=0)',
    'semantics of `?` / From / FromResidual as documented',
]
PAR_TRUST = COMMON_TRUST + [
    'std::sync::mpsc sync_channel semantics (bounded, send/recv fail once the peer is gone)',
    'std::ops::Range iteration yields end-start items',
    'scoped_threadpool 0.1: Scope::join_all waits for all queued jobs; Pool::scoped joins on exit',
    'crossbeam_utils::thread::scope joins every spawned thread before returning',
]

PROPS = {
    'C07': dict(
        groups=['par'],
        rules=['PAR-15', 'PAR-1', 'PAR-2', 'PAR-3', 'PAR-4', 'PAR-5'],
        level='other',
        undecided=['exactly-once delivery under every interleaving as a whole (rests on mpsc / thread-pool semantics, trusted)',
                   'arrival order with a single worker thread'],
        trusted=PAR_TRUST),
    'C08': dict(
        groups=['par'],
        rules=['PAR-15', 'PAR-6', 'PAR-7', 'PAR-8'],
        level='other',
        undecided=['deadlock freedom over all schedules as a global property (a model-checking question); only the structural necessary conditions are decided'],
        trusted=PAR_TRUST),
    'C15': dict(
        groups=['par'],
        rules=['PAR-7', 'PAR-10', 'PAR-11', 'PAR-12'],
        level='other',
        undecided=['"never receives a set read after the error" under all schedules', 'equality of the parse error with the sequential one (follows from delegation, see C04 FSM-D)'],
        trusted=PAR_TRUST),
    'C16': dict(
        groups=['par'],
        rules=['PAR-8', 'PAR-9'],
        level='proof',
        undecided=['nothing of the creation bound except what is delegated to the trusted base'],
        trusted=PAR_TRUST),
}
