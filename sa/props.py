"""Property table: which rule groups run for which property, which rule ids count for it, the
level claimed and the clauses that are NOT decided (reported in evidence on every run)."""

# rule group name -> module.function
GROUPS = {
    'par': ('rules_par', 'run'),
    'err': ('rules_err', 'run'),
    'grow': ('rules_grow', 'run'),
    'view': ('rules_view', 'run'),
}

# property -> dict(groups, rules, level, undecided, trusted)
COMMON_TRUST = [
    'rustc nightly MIR construction, borrow checking and drop elaboration (facts are read from optimized_mir at -Zmir-opt-level=0)',
    'semantics of `?` / From / FromResidual as documented',
]
PAR_TRUST = COMMON_TRUST + [
    'std::sync::mpsc sync_channel semantics (bounded, send/recv fail once the peer is gone)',
    'std::ops::Range iteration yields end-start items',
    'scoped_threadpool 0.1: Scope::join_all waits for all queued jobs; Pool::scoped joins on exit',
    'crossbeam_utils::thread::scope joins every spawned thread before returning',
]

PROPS = {
    'C07': dict(
        groups=['par'],
        rules=['PAR-15', 'PAR-1', 'PAR-2', 'PAR-3', 'PAR-4', 'PAR-5'],
        level='other',
        technique='static analysis of MIR: interprocedural provenance through closure environments, linear-resource (move) tracking of the data set, dominators / must-pass-through',
        level_text='Structural necessary conditions of exactly-once delivery, decided on all paths of the parallel machinery for every instantiation: set and output travel in one message, the received set is moved into the job on every iteration, the end marker follows join_all, next() installs what it received, per-record zip operand order and surplus handling. Not a schedule-level proof: mpsc and thread-pool semantics are trusted.',
        level_note='Trusted: rustc MIR, std mpsc, scoped_threadpool join_all, crossbeam scope. Decides shape-visible clauses only; the global exactly-once statement over interleavings is not model-checked (DESIGN 5/C07).',
        undecided=['exactly-once delivery under every interleaving as a whole (rests on mpsc / thread-pool semantics, trusted)',
                   'arrival order with a single worker thread'],
        trusted=PAR_TRUST),
    'C08': dict(
        groups=['par'],
        rules=['PAR-15', 'PAR-6', 'PAR-7', 'PAR-8'],
        level='other',
        technique='static analysis of MIR: must-pass-through (drop before join), forward flow of channel results into panicking sinks, provenance of capacities and loop bounds',
        level_text='Necessary conditions of termination decided structurally on every path: the consumer handle is dropped before the reader thread is joined, no channel result is unwrapped, the reader leaves its loop when the recycle channel closes, capacities and the number of initial sets derive from queue_len, all threads are scoped. Global deadlock freedom over schedules is not claimed.',
        level_note='Trusted: mpsc close semantics, crossbeam/scoped_threadpool joins. Deadlock freedom as a whole is a model-checking question and is declined (DESIGN 5/C08).',
        undecided=['deadlock freedom over all schedules as a global property (a model-checking question); only the structural necessary conditions are decided'],
        trusted=PAR_TRUST),
    'C15': dict(
        groups=['par'],
        rules=['PAR-7', 'PAR-10', 'PAR-11', 'PAR-12'],
        level='other',
        technique='static analysis of MIR: linear-resource tracking of error values (moves, drops), forward flow into `?`, must-leave-loop reachability',
        level_text='Every error source of the parallel path is followed by moves: the reader error is moved into exactly one Some(Err) message and the loop is left; initialiser and join results flow into `?`; per-record consumers propagate the item and the worker Result; no channel result is unwrapped. Holds for all instantiations; schedule-dependent clauses are not decided.',
        level_note='Trusted: rustc drop elaboration (a silently discarded value is an explicit Drop terminator), mpsc semantics.',
        undecided=['"never receives a set read after the error" under all schedules', 'equality of the parse error with the sequential one (follows from delegation, see C04 FSM-D)'],
        trusted=PAR_TRUST),
    'C16': dict(
        groups=['par'],
        rules=['PAR-8', 'PAR-9'],
        level='proof',
        technique='static analysis of MIR: who-may-call check of the data-set initialiser over the closure tree, loop-bound provenance, channel-endpoint provenance',
        level_text='Structural bound: the data-set initialiser is invoked at exactly two sites, one inside a single loop over 0..queue_len (each iteration passes Range::next) and one outside any loop, none in reader/worker/consumer code; only the fill loop and next() send on the recycle channel (next() sends the set it replaced); the reader fills only sets it received. Together at most queue_len+1 sets exist, for every input and schedule.',
        level_note='Proof modulo the listed trusted base (Range iteration count, mpsc, generic code cannot create a DataSet: only `Send` is known of it). Obligations = rule instances, all must be discharged.',
        undecided=['nothing of the creation bound except what is delegated to the trusted base'],
        trusted=PAR_TRUST),
    'C14': dict(
        groups=['err'],
        rules=['ERR-1', 'ERR-2', 'FILL-1', 'FILL-2', 'FILL-3', 'FILL-4', 'FILL-5'],
        level='other',
        technique='static analysis of MIR: linear-resource tracking of every error-carrying Result (moves, explicit Drop terminators, swallowing adaptors), loop-exit classification and guard analysis of the refill loop',
        level_text='Near-complete for the clauses "never swallowed / kind preserved / Interrupted retried": every call in the readers, writers and constructors whose Result carries io::Error or the crate Error is followed to the return place of its caller on all paths (93 producers), for every source type R and policy P since bodies are analysed before monomorphisation; the refill loop may only stop on full buffer, read of 0 or a non-Interrupted error whose value is the received one. The clause about the records returned before the failure is parsing correctness and is not decided.',
        level_note='Trusted: rustc drop elaboration (a discarded value is an explicit Drop), `?`/From semantics, buffer_redux read_into_buf returning the source error unchanged.',
        undecided=['"records returned before the failure are exactly the leading records" (parsing correctness, value-level)'],
        trusted=COMMON_TRUST + ['buffer_redux::BufReader::read_into_buf forwards the error of the underlying Read unchanged']),
    'C09': dict(
        groups=['grow', 'err'],
        rules=['GROW-1', 'GROW-2', 'GROW-3', 'GROW-4', 'GROW-5', 'GROW-6', 'AFF-1', 'AFF-2', 'AFF-3'],
        level='other',
        technique='static analysis of MIR: who-may-call (single growth site), operand provenance, control-dependence of the growth call, field-wise aggregate check, symbolic path extraction of the policies compared with the documented function on every ordering cell of their terms',
        level_text='Decides, for every source type and every policy type: reserve has one caller per format; the policy is asked with capacity() and the difference to its answer is reserved; BufferLimit exists only as the refusal of that call; the growth call is reachable only through "compaction forbidden" or "record already at offset 0" with compaction on the other branch; compaction is forbidden only in exact-count batches; set_policy copies every field; the three built-in policies equal the documented functions (loop-free bodies, enumerated path formulas). "Does not fit" as a semantic fact of the search is not decided.',
        level_note='Trusted: buffer_redux reserve/capacity semantics; sizes below 2^62 (overflow of the policy arithmetic is ignored).',
        undecided=['that a full buffer with the record at offset 0 is the only situation reaching the growth call depends on the value-level search (BUF-2 + GROW-4 give the structural half)'],
        trusted=COMMON_TRUST + ['buffer_redux::BufReader::{capacity, reserve}: reserve(n) makes room for n more bytes; nothing else changes the capacity']),
    'C12': dict(
        groups=['view'],
        rules=['TRIM-1', 'TRIM-2', 'SPLIT-LF', 'LEN-1'],
        level='other',
        technique='static analysis of MIR: return-value provenance of every line-yielding function (must be the CR trimmer), control/data dependence of the length verdict, constant analysis of split needles',
        level_text='Decides the structural clauses that make LF and CRLF parse alike: all 7 functions that hand out a line of the buffer return the result of the CR trimmer (itself checked to remove exactly one trailing CR), the record accessors delegate to them, both blank-line tests are CR-aware, every split of buffer data is on LF only, and the unequal-length verdict is decided on the trimmed lengths it reports. The relation between two whole runs is not decided.',
        level_note='Trusted: memchr / slice::split semantics. Not decided: equality of the complete outcomes of the LF and the CRLF run (relational, value-level).',
        undecided=['the relation between the two whole runs (records, line numbers) — value-level', 'FASTA per-line mixtures beyond what TRIM-1 implies'],
        trusted=COMMON_TRUST + ['memchr and core::slice::split split exactly at the given byte']),
    'C13': dict(
        groups=['view'],
        rules=['SPLIT-1', 'VIEW-1', 'VIEW-2', 'VIEW-3', 'TRIM-1'],
        level='other',
        technique='static analysis of MIR: abstract signatures (callee, arity, separator constant, selector) of the id/description methods, normalised-body comparison of the two SeqLines mappings, control dependence of the borrowed Cow, slot-wise aggregate provenance of owned conversions',
        level_text='Sibling agreement and slot agreement decided from the code shape: the 8 splitting methods split the header at 0x20 with the arity/selector the property prescribes, id()/desc() delegate to the byte versions, next/next_back of the line iterator apply the identical mapping to the same inner iterator, the borrowed Cow is produced exactly on the "one line" branch from seq(), owned conversions fill each field from the accessor of the same name. Value equalities themselves and UTF-8 clauses are not decided.',
        level_note='Trusted: std split/splitn/from_utf8. Not decided: the value equalities between views (follow from the decided structure only together with std semantics).',
        undecided=['the value equalities themselves', 'UTF-8 clauses (text accessors succeed exactly when their bytes are valid UTF-8) beyond the delegation check'],
        trusted=COMMON_TRUST),
    'C17': dict(
        groups=['view'],
        rules=['EPOS-1', 'EPOS-2', 'EPOS-3', 'EPOS-4', 'EPOS-5', 'UNIT-4'],
        level='other',
        technique='static analysis of MIR: constant propagation of the per-kind line offset into the position helper, copy-origin identity of the reported byte and the compared byte, slot provenance of reported lengths, field-to-formatter flow in Display',
        level_text='Per error kind the line offset and the id switch reaching the error position match the table in the property (0/no id, 2/id, 0/id, index of the part/id beyond the header); the reported byte is the very value compared with the marker and is read at the record-start / separator offset; reported lengths are the lengths of the trimmed accessors of the same name; the line is the file line counter plus that constant; Display formats every field. FASTA blank-line counting across refills is not decided here (see C03/C05 UNIT rules).',
        level_note='Trusted: core::fmt. Line numbers are true only if the file line counter is (decided separately for the FASTQ advance; FASTA first-record counting is value-level).',
        undecided=['FASTA blank-line counting', 'that the line counter itself is right (C05)'],
        trusted=COMMON_TRUST),
    'C19': dict(
        groups=['view'],
        rules=['SER-1', 'SER-3'],
        level='other',
        technique='static analysis of MIR of the derive output: field-name constants of serialize_field vs. names accepted by the generated field visitor vs. declared fields; aggregate provenance in visit_seq/visit_map; field coverage of PartialEq',
        level_text='Complete modulo trusted serde_derive/serde for the 6 derived types: every declared field is serialised exactly once under its own name, the deserialiser accepts exactly those names and rebuilds every field from the input, and equality of owned records compares every field. skip/rename/default attributes, conversion attributes (from/try_from/into) or a hand-written impl change the analysed shape and are reported.',
        level_note='Trusted: serde_derive generates correct code for plain structs; the data format round-trips.',
        undecided=['the data format own round-trip (trusted)'],
        trusted=COMMON_TRUST + ['serde / serde_derive']),
    'C20': dict(
        groups=['view'],
        rules=['ITER-1', 'ITER-2', 'VIEW-1'],
        level='other',
        technique='static analysis of MIR and type facts: provenance of every reported length (must be live iterator state), inner iterator types, delegation of next/next_back',
        level_text='For the 7 iterator types of the crate: a reported size_hint/len is computed from the wrapped iterator at call time (or from a field that next/next_back update), the wrapped iterators are std slice iterators or zip/skip/take of them (fused, exact-size), next/next_back are the mapped steps of the wrapped iterator and apply the same mapping. With std contracts trusted this gives the iterator contracts at every step.',
        level_note='Trusted: std iterator contracts for slice::Iter, Zip, Skip, Take. Reader-backed iterators rely on the sticky end (C01/C02 FSM-E).',
        undecided=['nothing beyond the contracts of std iterators (trusted)'],
        trusted=COMMON_TRUST + ['std slice::Iter / Zip / Skip / Take are fused and report exact sizes']),
}
