"""Property table: which rule groups run for which property, which rule ids count for it, the
level claimed and the clauses that are NOT decided (reported in evidence on every run)."""

# rule group name -> module.function
GROUPS = {
    'par': ('rules_par', 'run'),
    'err': ('rules_err', 'run'),
    'grow': ('rules_grow', 'run'),
    'view': ('rules_view', 'run'),
    'tpl': ('rules_tpl', 'run'),
    'alloc': ('rules_alloc', 'run'),
    'fsm': ('rules_fsm', 'run'),
    'units': ('rules_units', 'run'),
    'scan': ('rules_scan', 'run'),
    'wrap': ('rules_wrap', 'run'),
    'arith': ('rules_arith', 'run'),
}

# property -> dict(groups, rules, level, undecided, trusted)
COMMON_TRUST = [
    'rustc nightly MIR construction, borrow checking and drop elaboration (facts are read from optimized_mir at -Zmir-opt-level=0)',
    'semantics of `?` / From / FromResidual as documented',
]
PAR_TRUST = COMMON_TRUST + [
    'std::sync::mpsc sync_channel semantics (bounded, send/recv fail once the peer is gone)',
    'std::ops::Range iteration yields end-start items',
    'scoped_threadpool 0.1: Scope::join_all waits for all queued jobs; Pool::scoped joins on exit',
    'crossbeam_utils::thread::scope joins every spawned thread before returning',
]

PROPS = {
    'C07': dict(
        groups=['par'],
        rules=['PAR-15', 'PAR-1', 'PAR-2', 'PAR-3', 'PAR-4', 'PAR-5', 'PAR-16', 'PAR-9'],
        only={'PAR-9': r'current-set-is-the-extra-set'},
        level='other',
        technique='static analysis of MIR: interprocedural provenance through closure environments, linear-resource (move) tracking of the data set, dominators / must-pass-through',
        level_text='Structural necessary conditions of exactly-once delivery, decided on all paths of the parallel machinery for every instantiation: set and output travel in one message, the received set is moved into the job on every iteration, the end marker follows join_all, next() installs what it received, per-record zip operand order and surplus handling. Not a schedule-level proof: mpsc and thread-pool semantics are trusted.',
        level_note='Trusted: rustc MIR, std mpsc, scoped_threadpool join_all, crossbeam scope. Decides shape-visible clauses only; the global exactly-once statement over interleavings is not model-checked (DESIGN 5/C07).',
        undecided=['exactly-once delivery under every interleaving as a whole (rests on mpsc / thread-pool semantics, trusted)',
                   'arrival order with a single worker thread'],
        trusted=PAR_TRUST),
    'C08': dict(
        groups=['par'],
        rules=['PAR-15', 'PAR-6', 'PAR-7', 'PAR-16', 'PAR-2', 'PAR-10', 'PAR-9'],
        only={'PAR-9': r'(current-set-is-the-extra-set|init-site|FLOOR|ANCHOR)'},
        level='other',
        technique='static analysis of MIR: must-pass-through (drop before join), forward flow of channel results into panicking sinks, provenance of capacities and loop bounds',
        level_text='Necessary conditions of termination decided structurally on every path: the consumer handle is dropped before the reader thread is joined, no channel result is unwrapped, the reader leaves its loop when the recycle channel closes, capacities and the number of initial sets derive from queue_len, all threads are scoped. Global deadlock freedom over schedules is not claimed.',
        level_note='Trusted: mpsc close semantics, crossbeam/scoped_threadpool joins. Deadlock freedom as a whole is a model-checking question and is declined (DESIGN 5/C08).',
        undecided=['deadlock freedom over all schedules as a global property (a model-checking question); only the structural necessary conditions are decided'],
        trusted=PAR_TRUST),
    'C15': dict(
        groups=['par', 'err', 'fsm'],
        rules=['PAR-7', 'PAR-10', 'PAR-11', 'PAR-12', 'PAR-5', 'PAR-3', 'ERR-1', 'FSM-D'],
        only={'ERR-1': r'^ERR-1:((fasta|fastq)::Reader::(?!seek|from_path)|<(fasta|fastq)::Reader as parallel::Reader>)', 'FSM-D': r'fill_data|read_record_set'},
        level='other',
        technique='static analysis of MIR: linear-resource tracking of error values (moves, drops), forward flow into `?`, must-leave-loop reachability',
        level_text='Every error source of the parallel path is followed by moves: the reader error is moved into exactly one Some(Err) message and the loop is left; initialiser and join results flow into `?`; per-record consumers propagate the item and the worker Result; no channel result is unwrapped. Holds for all instantiations; schedule-dependent clauses are not decided.',
        level_note='Trusted: rustc drop elaboration (a silently discarded value is an explicit Drop terminator), mpsc semantics.',
        undecided=['"never receives a set read after the error" under all schedules', 'equality of the parse error with the sequential one (follows from delegation, see C04 FSM-D)'],
        trusted=PAR_TRUST),
    'C16': dict(
        groups=['par'],
        rules=['PAR-8', 'PAR-9'],
        level='proof',
        technique='static analysis of MIR: who-may-call check of the data-set initialiser over the closure tree, loop-bound provenance, channel-endpoint provenance',
        level_text='Structural bound: the data-set initialiser is invoked at exactly two sites, one inside a single loop over 0..queue_len (each iteration passes Range::next) and one outside any loop, none in reader/worker/consumer code; only the fill loop and next() send on the recycle channel (next() sends the set it replaced); the reader fills only sets it received. Together at most queue_len+1 sets exist, for every input and schedule.',
        level_note='Proof modulo the listed trusted base (Range iteration count, mpsc, generic code cannot create a DataSet: only `Send` is known of it). Obligations = rule instances, all must be discharged.',
        undecided=['nothing of the creation bound except what is delegated to the trusted base'],
        trusted=PAR_TRUST),
    'C14': dict(
        groups=['err', 'par'],
        rules=['ERR-1', 'ERR-2', 'FILL-0', 'FILL-1', 'FILL-2', 'FILL-3', 'FILL-4', 'FILL-5', 'FILL-6', 'FILL-7', 'PAR-12'],
        level='other',
        technique='static analysis of MIR: linear-resource tracking of every error-carrying Result (moves, explicit Drop terminators, swallowing adaptors), loop-exit classification and guard analysis of the refill loop',
        level_text='Near-complete for the clauses "never swallowed / kind preserved / Interrupted retried": every call in the readers, writers and constructors whose Result carries io::Error or the crate Error is followed to the return place of its caller on all paths (93 producers), for every source type R and policy P since bodies are analysed before monomorphisation; the refill loop may only stop on full buffer, read of 0 or a non-Interrupted error whose value is the received one. The clause about the records returned before the failure is parsing correctness and is not decided.',
        level_note='Trusted: rustc drop elaboration (a discarded value is an explicit Drop), `?`/From semantics, buffer_redux read_into_buf returning the source error unchanged.',
        undecided=['"records returned before the failure are exactly the leading records" (parsing correctness, value-level)'],
        trusted=COMMON_TRUST + ['buffer_redux::BufReader::read_into_buf forwards the error of the underlying Read unchanged']),
    'C09': dict(
        groups=['grow', 'err', 'fsm'],
        rules=['GROW-1', 'GROW-2', 'GROW-3', 'GROW-4', 'GROW-5', 'GROW-6', 'GROW-7', 'AFF-1', 'AFF-2', 'AFF-3'],
        level='other',
        technique='static analysis of MIR: who-may-call (single growth site), operand provenance, control-dependence of the growth call, field-wise aggregate check, symbolic path extraction of the policies compared with the documented function on every ordering cell of their terms',
        level_text='Decides, for every source type and every policy type: reserve has one caller per format; the policy is asked with capacity() and the difference to its answer is reserved; BufferLimit exists only as the refusal of that call; the growth call is reachable only through "compaction forbidden" or "record already at offset 0" with compaction on the other branch; compaction is forbidden only in exact-count batches; set_policy copies every field; the three built-in policies equal the documented functions (loop-free bodies, enumerated path formulas). "Does not fit" as a semantic fact of the search is not decided.',
        level_note='Trusted: buffer_redux reserve/capacity semantics; sizes below 2^62 (overflow of the policy arithmetic is ignored).',
        undecided=['that a full buffer with the record at offset 0 is the only situation reaching the growth call depends on the value-level search (BUF-2 + GROW-4 give the structural half)'],
        trusted=COMMON_TRUST + ['buffer_redux::BufReader::{capacity, reserve}: reserve(n) makes room for n more bytes; nothing else changes the capacity']),
    'C12': dict(
        groups=['view'],
        rules=['TRIM-1', 'TRIM-2', 'SPLIT-LF', 'LEN-1', 'LEN-2', 'VIEW-2', 'VIEW-3'],
        level='other',
        technique='static analysis of MIR: return-value provenance of every line-yielding function (must be the CR trimmer), control/data dependence of the length verdict, constant analysis of split needles',
        level_text='Decides the structural clauses that make LF and CRLF parse alike: all 7 functions that hand out a line of the buffer return the result of the CR trimmer (itself checked to remove exactly one trailing CR), the record accessors delegate to them, both blank-line tests are CR-aware, every split of buffer data is on LF only, and the unequal-length verdict is decided on the trimmed lengths it reports. The relation between two whole runs is not decided.',
        level_note='Trusted: memchr / slice::split semantics. Not decided: equality of the complete outcomes of the LF and the CRLF run (relational, value-level).',
        undecided=['the relation between the two whole runs (records, line numbers) — value-level', 'FASTA per-line mixtures beyond what TRIM-1 implies'],
        trusted=COMMON_TRUST + ['memchr and core::slice::split split exactly at the given byte']),
    'C13': dict(
        groups=['view', 'arith'],
        rules=['SPLIT-1', 'VIEW-1', 'VIEW-2', 'VIEW-3', 'TRIM-1', 'CHAIN-1', 'VIEW-5', 'VIEW-6'],
        only={'CHAIN-1': r'accessors'},
        level='other',
        technique='static analysis of MIR: abstract signatures (callee, arity, separator constant, selector) of the id/description methods, normalised-body comparison of the two SeqLines mappings, control dependence of the borrowed Cow, slot-wise aggregate provenance of owned conversions; affine relations between the offset-handling functions (advance vs. record start, search chain vs. accessor bounds, re-basing of found offsets, marker comparisons) solved symbolically (SCEV)',
        level_text='Sibling agreement and slot agreement decided from the code shape: the 8 splitting methods split the header at 0x20 with the arity/selector the property prescribes, id()/desc() delegate to the byte versions, next/next_back of the line iterator apply the identical mapping to the same inner iterator, the borrowed Cow is produced exactly on the "one line" branch from seq(), owned conversions fill each field from the accessor of the same name. Value equalities themselves and UTF-8 clauses are not decided. CHAIN-1 / VIEW-5: the FASTQ accessors slice between the fields the line search fills; FASTA lines are cut between adjacent offsets.',
        level_note='Trusted: std split/splitn/from_utf8. Not decided: the value equalities between views (follow from the decided structure only together with std semantics).',
        undecided=['the value equalities themselves', 'UTF-8 clauses (text accessors succeed exactly when their bytes are valid UTF-8) beyond the delegation check'],
        trusted=COMMON_TRUST),
    'C17': dict(
        groups=['view', 'units', 'scan', 'arith'],
        rules=['EPOS-1', 'EPOS-2', 'EPOS-3', 'EPOS-4', 'EPOS-5', 'UNIT-4', 'EPOS-6', 'STAGE-1', 'SCAN-1', 'SCAN-2', 'SCAN-3', 'MARK-1'],
        level='other',
        technique='static analysis of MIR: constant propagation of the per-kind line offset into the position helper, copy-origin identity of the reported byte and the compared byte, slot provenance of reported lengths, field-to-formatter flow in Display; induction-variable (scalar-evolution) analysis of the FASTA blank-line scan: recurrences of the offset accumulator and the line counter solved symbolically and compared with the closed forms the property needs; affine relations between the offset-handling functions (advance vs. record start, search chain vs. accessor bounds, re-basing of found offsets, marker comparisons) solved symbolically (SCEV)',
        level_text='Per error kind the line offset and the id switch reaching the error position match the table in the property (0/no id, 2/id, 0/id, index of the part/id beyond the header); the reported byte is the very value compared with the marker and is read at the record-start / separator offset; reported lengths are the lengths of the trimmed accessors of the same name; the line is the file line counter plus that constant; Display formats every field. FASTA blank-line counting across refills is not decided here (see C03/C05 UNIT rules). MARK-1: the marker errors are constructed exactly on the != outcome of the comparison of the reported byte.',
        level_note='Trusted: core::fmt. Line numbers are true only if the file line counter is (decided separately for the FASTQ advance). FASTA InvalidStart: the scan over leading blank lines counts one line per LF-separated piece, reports the count including the offending piece and its first byte, and across refills consumes exactly the complete lines and un-counts the re-scanned tail exactly once (SCAN-1..3, for all buffer sizes by induction over the pieces).',
        undecided=['that the FASTQ line counter itself is right (C05)', 'which pieces count as blank (TRIM-2 decides the test, not its use here)'],
        trusted=COMMON_TRUST),
    'C19': dict(
        groups=['view'],
        rules=['SER-1', 'SER-3', 'SER-4'],
        level='other',
        technique='static analysis of MIR of the derive output: field-name constants of serialize_field vs. names accepted by the generated field visitor vs. declared fields; aggregate provenance in visit_seq/visit_map; field coverage of PartialEq',
        level_text='Complete modulo trusted serde_derive/serde for the 6 derived types: every declared field is serialised exactly once under its own name, the deserialiser accepts exactly those names and rebuilds every field from the input, and equality of owned records compares every field. skip/rename/default attributes, conversion attributes (from/try_from/into) or a hand-written impl change the analysed shape and are reported.',
        level_note='Trusted: serde_derive generates correct code for plain structs; the data format round-trips.',
        undecided=['the data format own round-trip (trusted)'],
        trusted=COMMON_TRUST + ['serde / serde_derive']),
    'C20': dict(
        groups=['view', 'fsm', 'arith'],
        rules=['ITER-1', 'ITER-2', 'VIEW-1', 'FSM-E', 'FSM-T', 'VIEW-5'],
        level='other',
        technique='static analysis of MIR and type facts: provenance of every reported length (must be live iterator state), inner iterator types, delegation of next/next_back; finite-state abstract interpretation of the readers for the sticky end of the reader-backed iterators; affine relations between the offset-handling functions (advance vs. record start, search chain vs. accessor bounds, re-basing of found offsets, marker comparisons) solved symbolically (SCEV)',
        level_text='For the 7 iterator types of the crate: a reported size_hint/len is computed from the wrapped iterator at call time (or from a field that every stepping method of the type updates), the wrapped iterators are std slice iterators or zip/skip/take of them (fused, exact-size), next/next_back are the mapped steps of the wrapped iterator and apply the same mapping. With std contracts trusted this gives the iterator contracts at every step. VIEW-5: sequence lines are cut between adjacent offsets.',
        level_note='Trusted: std iterator contracts for slice::Iter, Zip, Skip, Take. The owned-record iterators of a reader are fused because the reader is: FSM-E / FSM-T (an end or an error is only reported in, or leaves the reader in, the terminal state, over all call histories) are part of this check.',
        undecided=['nothing beyond the contracts of std iterators (trusted)'],
        trusted=COMMON_TRUST + ['std slice::Iter / Zip / Skip / Take are fused and report exact sizes']),
    'C10': dict(
        groups=['tpl', 'err', 'wrap'],
        rules=['TPL-1', 'TPL-3', 'TPL-5', 'ERR-1', 'WRAP-1', 'WRAP-2', 'WRAP-3'],
        only={'TPL-1': r'^TPL-1:(<fasta|fasta)', 'TPL-5': r'^TPL-5:fasta', 'ERR-1': r'^ERR-1:(fasta::write|<fasta::(Ref|Owned)Record as fasta::Record>::write)'},
        level='other',
        technique='static analysis of MIR: interprocedural write-effect templates (regular expressions over constant bytes and argument holes, loops as stars, callees inlined) compared with the format definition; provenance of the wrap width; control dependence of the optional description; affine symbolic evaluation of one iteration of the line-budget loop (path conditions vs. the budget inequality, fill recurrence)',
        level_text='For the 9 free FASTA writers and the 4 record methods the complete sequence of write_all arguments on every successful path is computed and compared with the format template of the property (marker, header or id [space description], LF, sequence pieces, LF); wrapped writers may only emit pieces of the sequence argument and LF in the documented frame; the wrap argument is the width the chunking code uses; the description is written iff Some. Any other use of the writer (write_vectored, write_fmt, ...) is reported. Line-width arithmetic, chunking equivalence and the round trip through the parser are not decided.',
        level_note='Trusted: io::Write::write_all writes the whole slice; slice::chunks / split_at semantics. The line-budget loop of the chunk-wise wrapper is decided per iteration (WRAP-1/2: a piece is written whole only if it fits and the fill grows by its length; a line feed only if the piece exceeds the remaining width, after exactly the remaining width, fill restarts at 0, rest carried on) - by induction no line exceeds the width, every line before a line feed has exactly the width, and an empty chunk never produces output; WRAP-3: no width >= 1 is rejected.',
        undecided=['equality of whole vs. chunked output beyond the per-iteration budget invariants', 'round trip through the parser'],
        trusted=COMMON_TRUST + ['io::Write::write_all', 'slice::chunks / split_at']),
    'C11': dict(
        groups=['tpl', 'view', 'err'],
        rules=['TPL-1', 'TPL-2', 'TPL-4', 'TPL-5', 'ERR-1', 'TRIM-2'],
        only={'TRIM-2': r'fastq', 'TPL-1': r'^TPL-1:fastq', 'TPL-5': r'^TPL-5:fastq', 'ERR-1': r'^ERR-1:(fastq::write|fastq::Record::write|(fasta|fastq)::RefRecord::write_unchanged)'},
        level='other',
        technique='static analysis of MIR: write-effect templates of the FASTQ writers, slot agreement of Record::write, extent provenance of write_unchanged (range bounds vs. the fields the accessors use), terminator rule by control dependence',
        level_text='fastq::write_to / write_parts / Record::write emit exactly "@" head LF seq LF "+" LF qual LF with each accessor in the slot of the same name; write_unchanged writes one slice of the record buffer from the record start to the end of its last line followed by LF (FASTA: LF only when the slice does not already end with one) and uses the writer for nothing else; the reader side of "reproduces the input up to ... trailing blank lines dropped": the blank-tail test at the end of a FASTQ input is made on CR-trimmed pieces (TRIM-2), so a CRLF input with trailing blank lines ends without an error. Byte-exact round trips as a whole are value-level and not decided.',
        level_note='Trusted: io::Write::write_all. Not decided: that the offsets used by write_unchanged are the true record extent (C02/C05).',
        undecided=['round-trip equality and byte-exactness as a whole'],
        trusted=COMMON_TRUST + ['io::Write::write_all']),
    'C18': dict(
        groups=['alloc', 'grow', 'fsm'],
        rules=['ALLOC-1', 'ALLOC-2', 'ALLOC-3', 'GROW-1', 'GROW-4', 'GROW-5', 'GROW-7'],
        level='other',
        technique='static analysis of MIR: classification of allocation-capable callees reachable from the reading operations by the provenance of their receiver (persistent container vs. temporary), whole-assignment / replace / drop detection on container fields, type facts of the borrowed records, growth-site rules',
        level_text='Structural necessary conditions of allocation-free steady state, for all inputs and instantiations: records are reference-only views; every allocation-capable call reachable from next / read_record_set(_exact) / record-set iteration grows a container that lives in the reader or in the caller-supplied set in place (clones only as the value pushed into the set while it warms up); those containers are never replaced, taken or dropped outside constructors (seek included); the buffer capacity changes only in the single growth site, which is reachable only when compaction is forbidden or impossible. Allocator behaviour (amortised growth) is trusted.',
        level_note='Trusted: Vec::clear keeps the capacity; Vec::push/extend allocate only when the capacity is exceeded; buffer_redux make_room/consume do not allocate.',
        undecided=['the allocator behaviour itself ("after a few records")', 'that records which are no larger need no growth (value-level)'],
        trusted=COMMON_TRUST + ['Vec::{clear, push, extend} capacity semantics']),
    'C01': dict(
        groups=['err', 'view', 'fsm', 'scan', 'arith'],
        rules=['FSM-T', 'FSM-E', 'FSM-P', 'BUF-1', 'BUF-2', 'LOOP-1', 'TRIM-1', 'SPLIT-LF', 'TRIM-2', 'FILL-0', 'FILL-1', 'FILL-2', 'FILL-3', 'FILL-5', 'FILL-6', 'FILL-7', 'VIEW-1', 'VIEW-3', 'SCAN-1', 'SCAN-2', 'SCAN-3', 'MARK-1', 'FIND-1', 'VIEW-5'],
        only={'MARK-1': r'fasta', 'FIND-1': r'fasta', 'SCAN-1': r'offset-advances', 'SCAN-2': r'hit-(offset|byte)', 'SCAN-3': r'(consumed=|compacted)', 'VIEW-1': r'fasta::SeqLines', 'VIEW-3': r'fasta', 'FSM-T': r':fasta::', 'FSM-E': r':fasta::', 'FSM-P': r':fasta::', 'TRIM-1': r'(fasta|trim)', 'TRIM-2': r'fasta', 'SPLIT-LF': r'fasta', 'BUF-1': r'fasta', 'BUF-2': r'fasta', 'LOOP-1': r'fasta'},
        level='other',
        technique='static analysis of MIR: finite-state abstract interpretation of the reader (state field, ghost "record located") closed under all sequences of public reading operations, must-pass-through rules of the buffer protocol, return-value provenance of line accessors; induction-variable (scalar-evolution) analysis of the FASTA blank-line scan: recurrences of the offset accumulator and the line counter solved symbolically and compared with the closed forms the property needs; affine relations between the offset-handling functions (advance vs. record start, search chain vs. accessor bounds, re-basing of found offsets, marker comparisons) solved symbolically (SCEV)',
        level_text='Decides the protocol the record-by-record reader runs on, over ALL call histories of the abstraction (error returns included): a format error or end of input leaves the reader in its terminal state and every later read returns None without changing anything; a search for a record only starts when no located record is pending and the reader only advances over a located record (nothing delivered twice or skipped by the state machine); after consuming, the buffer is compacted before it is refilled; an end-of-input verdict is never taken on a buffer that was altered and not refilled; every retry loop refills; returned lines are CR-trimmed and splitting is on LF only. The scan over leading blank lines finds the first non-blank piece at the offset accumulated over the preceding pieces (len+1 each) and loses no byte across refills (SCAN-1..3). The boundary search itself (LF followed by ">", slicing arithmetic) is value-level and not decided. MARK-1: InvalidStart is raised exactly on byte != \'>\'; FIND-1: offsets found by memchr are re-based by the start of the searched slice; VIEW-5: lines are cut between adjacent offsets.',
        level_note='Trusted: buffer_redux (consume does not compact, read_into_buf returns Ok(0) without free space). The abstraction tracks enum tags and booleans only; offsets are not tracked.',
        undecided=['the record-boundary search (LF followed by ">", one byte look-ahead, re-search of the tail)', 'slicing arithmetic of the accessors'],
        trusted=COMMON_TRUST + ['buffer_redux 1.0: consume/make_room/read_into_buf semantics']),
    'C02': dict(
        groups=['err', 'view', 'fsm', 'arith'],
        rules=['FSM-T', 'FSM-E', 'FSM-P', 'FSM-V', 'BUF-1', 'BUF-2', 'LOOP-1', 'LEN-1', 'LEN-2', 'LEN-3', 'EPOS-1', 'EPOS-2', 'EPOS-5', 'TRIM-1', 'TRIM-2', 'SPLIT-LF', 'FILL-0', 'FILL-1', 'FILL-2', 'FILL-3', 'FILL-5', 'FILL-6', 'FILL-7', 'MARK-1', 'FIND-1', 'CHAIN-1'],
        only={'MARK-1': r'fastq', 'FIND-1': r'fastq', 'FSM-T': r':fastq::', 'FSM-E': r':fastq::', 'FSM-P': r':fastq::', 'TRIM-1': r'(fastq|trim)', 'TRIM-2': r'fastq', 'SPLIT-LF': r'fastq', 'BUF-1': r'fastq', 'BUF-2': r'fastq', 'LOOP-1': r'fastq', 'EPOS-2': r'fastq'},
        level='other',
        technique='static analysis of MIR: finite-state abstract interpretation closed under all call histories, must-pass-through (validate before deliver) at every site that completes a record, control/data dependence of the length verdict; affine relations between the offset-handling functions (advance vs. record start, search chain vs. accessor bounds, re-basing of found offsets, marker comparisons) solved symbolically (SCEV)',
        level_text='As C01 for the FASTQ reader and its four format errors (terminal state after any of them, sticky end, search/advance protocol over all histories including calls after I/O and buffer-limit errors); additionally: every path that completes a record (assigns its end offset) runs the validator before reporting success, at all completion sites; the length verdict is decided on the trimmed lengths; the bytes compared with "@" and "+" are read at the record-start and separator offsets; the error value is built without touching offsets that are not valid for the error kind (the record id is only extracted when the header line has been delimited and is non-empty - otherwise the reader would panic instead of reporting); buffer protocol and CR trimming as in C01. Line search arithmetic and the blank-tail classification are not decided. MARK-1 / FIND-1 / CHAIN-1: the marker errors are raised exactly on the != outcome; the four line starts are searched in a chain, each from the previous one, re-based by the slice start, and fill exactly the bounds the accessors slice with.',
        level_note='Trusted: buffer_redux, memchr. Offsets are not tracked by the abstraction.',
        undecided=['line search arithmetic', 'the blank-tail classification ("up to three blank lines")'],
        trusted=COMMON_TRUST + ['buffer_redux 1.0', 'memchr']),
    'C03': dict(
        groups=['err', 'grow', 'units', 'fsm', 'scan', 'arith'],
        rules=['FILL-0', 'FILL-1', 'FILL-2', 'FILL-3', 'FILL-4', 'FILL-5', 'FILL-6', 'FILL-7', 'BUF-1', 'BUF-2', 'LOOP-1', 'GROW-2', 'GROW-4', 'GROW-5', 'UNIT-1', 'UNIT-3', 'UNIT-3b', 'STAGE-1', 'EPOS-6', 'FSM-P', 'SCAN-1', 'SCAN-2', 'SCAN-3', 'ADV-1'],
        level='other',
        technique='static analysis of MIR: loop-exit classification of the refill, must-pass-through buffer protocol, unit (dimension) inference for offsets with clash detection, shift-completeness of compaction; induction-variable (scalar-evolution) analysis of the FASTA blank-line scan: recurrences of the offset accumulator and the line counter solved symbolically and compared with the closed forms the property needs; affine relations between the offset-handling functions (advance vs. record start, search chain vs. accessor bounds, re-basing of found offsets, marker comparisons) solved symbolically (SCEV)',
        level_text='Decides the structural reasons why capacity, policy and chunking cannot show: the refill loop only stops on a full buffer, a read of 0 bytes or a non-Interrupted error (short and interrupted reads are invisible); compaction is followed by a refill before any end-of-input verdict; every function that re-bases the buffer rewrites every stored buffer offset by the consumed amount; nothing measured in buffer coordinates flows into a file position, an error position or an error field; the policy sees the real capacity; the FASTA blank-line scan yields the same line, offset and byte wherever the buffer ends (closed forms independent of the number of refills). Equality of complete outcomes between two configurations is relational and value-level and is not decided. ADV-1: the advance moves Position.byte by exactly the displacement of the record start in the buffer.',
        level_note='Trusted: buffer_redux. UNITS reports only definite unit clashes; unresolved variables are silent.',
        undecided=['equality of complete outcomes between two configurations', 'the amount of a shift (only its presence is decided)'],
        trusted=COMMON_TRUST + ['buffer_redux 1.0']),
    'C06': dict(
        groups=['err', 'fsm', 'view', 'scan', 'arith'],
        rules=['FSM-P', 'FSM-S1', 'FSM-E', 'SEEK-2', 'SEEK-3', 'EPOS-1', 'EPOS-5', 'SCAN-1', 'SCAN-2', 'SCAN-3', 'LOOP-1', 'BUF-1', 'BUF-2', 'FILL-0', 'FILL-1', 'FILL-2', 'FILL-3', 'FILL-5', 'FILL-6', 'FILL-7', 'ADV-1', 'FIND-1', 'CHAIN-1'],
        only={'EPOS-1': r'UnexpectedEnd', 'SCAN-1': r'offset-advances', 'SCAN-2': r'hit-(offset|byte)', 'SCAN-3': r'(consumed=|compacted|file-offset)'},
        level='other',
        technique='static analysis of MIR: finite-state abstract interpretation closed under all call histories (post-error and post-end calls included), loop/refill must-pass-through; induction-variable (scalar-evolution) analysis of the FASTA blank-line scan: recurrences of the offset accumulator and the line counter solved symbolically and compared with the closed forms the property needs; affine relations between the offset-handling functions (advance vs. record start, search chain vs. accessor bounds, re-basing of found offsets, marker comparisons) solved symbolically (SCEV)',
        level_text='Safety over all reachable abstract states, including those left behind by I/O and buffer-limit errors: no reading operation advances over a record whose search is incomplete (the panic/garbage source), no record-set read leaves offsets over bytes that do not belong to them, the end is sticky, every retry loop makes progress through the refill; a failed seek leaves offsets and buffer consistent; the FASTQ error position only slices the header for an id when the header line was delimited and is non-empty (the two guards whose loss makes error reporting panic); the FASTA blank-line scan keeps consumed bytes, reported offset and file offset in step (a drift makes later seeks land inside a record). General absence of index/slice panics depends on offset invariants (value-level) and is not decided; termination under a policy that returns its argument unchanged is not decided. ADV-1 / FIND-1 / CHAIN-1: file position and buffer offsets move together; found offsets are re-based by the slice start; the accessors slice between the fields the search chain fills (the inconsistencies that turn into slice panics or fabricated records).',
        level_note='Trusted: buffer_redux. The abstraction tracks tags and booleans only.',
        undecided=['absence of index / slice / unwrap panics in general (offset invariants)', 'termination under a degenerate policy'],
        trusted=COMMON_TRUST + ['buffer_redux 1.0']),
    'C04': dict(
        groups=['fsm'],
        rules=['FSM-D', 'FSM-P', 'FSM-V', 'FSM-S1', 'FSM-S2', 'FSM-S3', 'FSM-S4', 'FSM-S5', 'FSM-E', 'SEEK-1', 'SEEK-4', 'SEEK-5'],
        level='other',
        technique='static analysis of MIR: finite-state abstract interpretation of next / read_record_set(_exact) / seek closed under all call histories with ghost variables for the located record and for record-set atomicity; delegation check of the other entry points',
        level_text='There is one state machine per format: read_record_set, both owned iterators and the parallel fill_data are single delegating calls. On the closure of the abstract reader state under every sequence of next, record-set reads (plain and exact-count) and seeks - switches between them and calls after errors included - the reader never starts a search over a pending located record and never advances without one (no loss / duplication by the state machine); at every exit of a set read the pushed offsets and the copied bytes agree, a pushed record is delivered by a Some(Ok) exit, Some(Ok) implies at least one record, the old batch is cleared first and the bytes are copied whole. That a batch ends at the right record and content equality with single reads are value-level and not decided.',
        level_note='Trusted: Vec semantics. The abstraction does not track offsets or counts beyond "none / at least one".',
        undecided=['that a batch ends at the right record (count arithmetic)', 'content equality with single reads', '"may not move the buffer once it holds a record" beyond GROW-5'],
        trusted=COMMON_TRUST),
    'C05': dict(
        groups=['fsm', 'units', 'scan', 'arith'],
        rules=['SEEK-1', 'SEEK-2', 'SEEK-3', 'SEEK-4', 'SEEK-5', 'FSM-P', 'UNIT-1', 'UNIT-5', 'EPOS-6', 'SCAN-1', 'SCAN-2', 'SCAN-3', 'ADV-1'],
        level='other',
        technique='static analysis of MIR: must-pass-through of the state resets on both seek branches, provenance of the source-seek target, unit (dimension) inference of every position update and of the seek arithmetic, FSM closure for the operation following a seek; induction-variable (scalar-evolution) analysis of the FASTA blank-line scan: recurrences of the offset accumulator and the line counter solved symbolically and compared with the closed forms the property needs; affine relations between the offset-handling functions (advance vs. record start, search chain vs. accessor bounds, re-basing of found offsets, marker comparisons) solved symbolically (SCEV)',
        level_text='Both branches of seek set the Positioned state, reset the buffer offsets and the partial-search state, and assign the target position; the far branch seeks the source to exactly the target byte and refills before returning; the operation after a seek searches and does not advance; a failed seek resets offsets and empties the buffer; the in-buffer shortcut requires the target offset to be strictly below the buffer length; the position of the first FASTA record (file offset of the buffer start plus offset in the buffer, line count) is right for every number of refills spent on leading blank lines (SCAN-1..3). File coordinates are only ever computed as file offset +/- length (or copied), never from buffer-relative numbers; the seek arithmetic is dimensionally consistent. The offset arithmetic feeding the shortcut test and line numbers are value-level and not decided. ADV-1: the advance moves Position.byte by exactly the displacement of the record start in the buffer (the file offset of the buffer start is invariant under advancing).',
        level_note='Trusted: io::Seek. UNITS reports definite unit clashes only.',
        undecided=['the lower bound of the in-buffer shortcut and the offset arithmetic that feeds it', 'line numbers beyond the per-record advance and the first-record scan'],
        trusted=COMMON_TRUST + ['std::io::Seek']),
}


# ---------------------------------------------------------------------------------------------------------------
# Rules that know the readers by the names of their private fields.  If a format's private layout was renamed or
# regrouped (round 6: `buf_pos` + `search_pos` wrapped into an `Offsets` struct; `incomplete_pos` -> `stalled_in`,
# `RecordPos` -> `Line`), these rules have nothing to hold on to: their failing instances for that format are
# "no verdict", never violations.
LAYOUT = {
    'fasta': {'Reader': ['buf_reader', 'buf_pos', 'search_pos', 'position', 'state', 'buf_policy'], 'BufferPosition': ['start', 'seq_pos'], 'RecordSet': [], 'enums': ['fasta::State']},
    'fastq': {'Reader': ['buf_reader', 'buf_pos', 'incomplete_pos', 'position', 'state', 'buf_policy'], 'BufferPosition': ['pos', 'seq', 'sep', 'qual'], 'RecordSet': [], 'enums': ['fastq::State', 'fastq::RecordPos']},
}
ENUM_VARIANTS = {'fasta::State': ['New', 'Parsing', 'Incomplete', 'Positioned', 'Finished'],
                 'fastq::State': ['New', 'Parsing', 'Positioned', 'Finished'],
                 'fastq::RecordPos': ['Head', 'Seq', 'Sep', 'Qual']}
NAME_DEPENDENT = ('FSM-', 'SEEK-', 'UNIT-', 'EPOS-', 'STAGE-1', 'GROW-4', 'GROW-5', 'GROW-6', 'GROW-7', 'BUF-2', 'ADV-1', 'CHAIN-1', 'LEN-2', 'LEN-3', 'TPL-4', 'SCAN-3', 'ALLOC-2', 'MARK-1')


def layout_guard(prog, R):
    changed = {}
    for fmt, want in LAYOUT.items():
        miss = []
        for adt_name in ('Reader', 'BufferPosition', 'RecordSet'):
            adt = prog.adts.get('%s::%s' % (fmt, adt_name))
            have = set(fd['name'] for fd in adt['variants'][0]['fields']) if adt else set()
            miss += ['%s.%s' % (adt_name, n) for n in want[adt_name] if n not in have]
            # state added to the reader (a cached coordinate, a flag): the rules were not confirmed with it
            if adt_name == 'Reader' and adt:
                miss += ['%s.%s (new)' % (adt_name, n) for n in sorted(have - set(want[adt_name]))]
        miss += [e for e in want['enums'] if e not in prog.adts]
        # the variants of the private state enums (renamed / merged / given payloads: `State::Active { returned: bool }`)
        for e, vs in ENUM_VARIANTS.items():
            if e.startswith(fmt + '::') and e in prog.adts:
                have_v = [(v['name'], len(v['fields'])) for v in prog.adts[e]['variants']]
                if sorted(have_v) != sorted((n, 0) for n in vs):
                    miss.append('%s variants %s' % (e, [n if k == 0 else '%s{..}' % n for n, k in have_v]))
        if miss:
            changed[fmt] = miss
    # the parallel module: channel ends bundled into a private struct whose *methods* do the send / recv
    # (`struct ReaderEnd { empty_recv, done_send }` with `fn recycled(&self) -> Option<D> { self.empty_recv.recv().ok() }`):
    # the PAR rules identify a channel operation by the endpoint it is called on and do not look through such methods
    wrappers = []
    for path, adt in prog.adts.items():
        if not path.startswith('parallel::') or path in ('parallel::ParallelRecordsets', 'parallel::ReusableReader') or adt.get('kind') != 'struct':
            continue
        if not any('mpsc::' in fd['ty'] for fd in adt['variants'][0]['fields']):
            continue
        for b in prog.bodies.values():
            if b.key.startswith(path + '::') and b.promoted_of is None and any(
                    t.callee is not None and t.callee.path.startswith('std::sync::mpsc::') and t.callee.name in ('recv', 'send', 'try_send', 'try_recv') for _, t in b.calls()):
                wrappers.append(path)
                break
    if wrappers:
        for it in R.items:
            if not it['ok'] and it['rule'].startswith('PAR-'):
                it['ok'] = True
                it['undecided'] = True
                it['detail'] = 'no verdict: the channel ends are wrapped in %s, whose methods send / receive - it reported: %s' % (', '.join(sorted(set(wrappers))), it['detail'][:160])
    if not changed:
        return changed
    for it in R.items:
        if it['ok'] or not it['rule'].startswith(NAME_DEPENDENT):
            continue
        for fmt, miss in changed.items():
            if ('%s::' % fmt) in it['key'] or it['key'].endswith(':%s' % fmt) or (':%s:' % fmt) in it['key']:
                it['ok'] = True
                it['undecided'] = True
                it['detail'] = 'no verdict: the private layout of the %s reader changed (%s: missing / new) and this rule identifies the reader state by those names - it reported: %s' % (fmt, ', '.join(miss), it['detail'][:160])
    return changed
