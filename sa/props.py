"""Property table: which rule groups run for which property, which rule ids count for it, the
level claimed and the clauses that are NOT decided (reported in evidence on every run)."""

# rule group name -> module.function
GROUPS = {
    'par': ('rules_par', 'run'),
    'err': ('rules_err', 'run'),
    'grow': ('rules_grow', 'run'),
}

# property -> dict(groups, rules, level, undecided, trusted)
COMMON_TRUST = [
    'rustc nightly MIR construction, borrow checking and drop elaboration (facts are read from optimized_mir at -Zmir-opt-level=0)',
    'semantics of `?` / From / FromResidual as documented',
]
PAR_TRUST = COMMON_TRUST + [
    'std::sync::mpsc sync_channel semantics (bounded, send/recv fail once the peer is gone)',
    'std::ops::Range iteration yields end-start items',
    'scoped_threadpool 0.1: Scope::join_all waits for all queued jobs; Pool::scoped joins on exit',
    'crossbeam_utils::thread::scope joins every spawned thread before returning',
]

PROPS = {
    'C07': dict(
        groups=['par'],
        rules=['PAR-15', 'PAR-1', 'PAR-2', 'PAR-3', 'PAR-4', 'PAR-5'],
        level='other',
        technique='static analysis of MIR: interprocedural provenance through closure environments, linear-resource (move) tracking of the data set, dominators / must-pass-through',
        level_text='Structural necessary conditions of exactly-once delivery, decided on all paths of the parallel machinery for every instantiation: set and output travel in one message, the received set is moved into the job on every iteration, the end marker follows join_all, next() installs what it received, per-record zip operand order and surplus handling. Not a schedule-level proof: mpsc and thread-pool semantics are trusted.',
        level_note='Trusted: rustc MIR, std mpsc, scoped_threadpool join_all, crossbeam scope. Decides shape-visible clauses only; the global exactly-once statement over interleavings is not model-checked (DESIGN 5/C07).',
        undecided=['exactly-once delivery under every interleaving as a whole (rests on mpsc / thread-pool semantics, trusted)',
                   'arrival order with a single worker thread'],
        trusted=PAR_TRUST),
    'C08': dict(
        groups=['par'],
        rules=['PAR-15', 'PAR-6', 'PAR-7', 'PAR-8'],
        level='other',
        technique='static analysis of MIR: must-pass-through (drop before join), forward flow of channel results into panicking sinks, provenance of capacities and loop bounds',
        level_text='Necessary conditions of termination decided structurally on every path: the consumer handle is dropped before the reader thread is joined, no channel result is unwrapped, the reader leaves its loop when the recycle channel closes, capacities and the number of initial sets derive from queue_len, all threads are scoped. Global deadlock freedom over schedules is not claimed.',
        level_note='Trusted: mpsc close semantics, crossbeam/scoped_threadpool joins. Deadlock freedom as a whole is a model-checking question and is declined (DESIGN 5/C08).',
        undecided=['deadlock freedom over all schedules as a global property (a model-checking question); only the structural necessary conditions are decided'],
        trusted=PAR_TRUST),
    'C15': dict(
        groups=['par'],
        rules=['PAR-7', 'PAR-10', 'PAR-11', 'PAR-12'],
        level='other',
        technique='static analysis of MIR: linear-resource tracking of error values (moves, drops), forward flow into `?`, must-leave-loop reachability',
        level_text='Every error source of the parallel path is followed by moves: the reader error is moved into exactly one Some(Err) message and the loop is left; initialiser and join results flow into `?`; per-record consumers propagate the item and the worker Result; no channel result is unwrapped. Holds for all instantiations; schedule-dependent clauses are not decided.',
        level_note='Trusted: rustc drop elaboration (a silently discarded value is an explicit Drop terminator), mpsc semantics.',
        undecided=['"never receives a set read after the error" under all schedules', 'equality of the parse error with the sequential one (follows from delegation, see C04 FSM-D)'],
        trusted=PAR_TRUST),
    'C16': dict(
        groups=['par'],
        rules=['PAR-8', 'PAR-9'],
        level='proof',
        technique='static analysis of MIR: who-may-call check of the data-set initialiser over the closure tree, loop-bound provenance, channel-endpoint provenance',
        level_text='Structural bound: the data-set initialiser is invoked at exactly two sites, one inside a single loop over 0..queue_len (each iteration passes Range::next) and one outside any loop, none in reader/worker/consumer code; only the fill loop and next() send on the recycle channel (next() sends the set it replaced); the reader fills only sets it received. Together at most queue_len+1 sets exist, for every input and schedule.',
        level_note='Proof modulo the listed trusted base (Range iteration count, mpsc, generic code cannot create a DataSet: only `Send` is known of it). Obligations = rule instances, all must be discharged.',
        undecided=['nothing of the creation bound except what is delegated to the trusted base'],
        trusted=PAR_TRUST),
    'C14': dict(
        groups=['err'],
        rules=['ERR-1', 'ERR-2', 'FILL-1', 'FILL-2', 'FILL-3', 'FILL-4', 'FILL-5'],
        level='other',
        technique='static analysis of MIR: linear-resource tracking of every error-carrying Result (moves, explicit Drop terminators, swallowing adaptors), loop-exit classification and guard analysis of the refill loop',
        level_text='Near-complete for the clauses "never swallowed / kind preserved / Interrupted retried": every call in the readers, writers and constructors whose Result carries io::Error or the crate Error is followed to the return place of its caller on all paths (93 producers), for every source type R and policy P since bodies are analysed before monomorphisation; the refill loop may only stop on full buffer, read of 0 or a non-Interrupted error whose value is the received one. The clause about the records returned before the failure is parsing correctness and is not decided.',
        level_note='Trusted: rustc drop elaboration (a discarded value is an explicit Drop), `?`/From semantics, buffer_redux read_into_buf returning the source error unchanged.',
        undecided=['"records returned before the failure are exactly the leading records" (parsing correctness, value-level)'],
        trusted=COMMON_TRUST + ['buffer_redux::BufReader::read_into_buf forwards the error of the underlying Read unchanged']),
    'C09': dict(
        groups=['grow', 'err'],
        rules=['GROW-1', 'GROW-2', 'GROW-3', 'GROW-4', 'GROW-5', 'GROW-6', 'AFF-1', 'AFF-2', 'AFF-3'],
        level='other',
        technique='static analysis of MIR: who-may-call (single growth site), operand provenance, control-dependence of the growth call, field-wise aggregate check, symbolic path extraction of the policies compared with the documented function on every ordering cell of their terms',
        level_text='Decides, for every source type and every policy type: reserve has one caller per format; the policy is asked with capacity() and the difference to its answer is reserved; BufferLimit exists only as the refusal of that call; the growth call is reachable only through "compaction forbidden" or "record already at offset 0" with compaction on the other branch; compaction is forbidden only in exact-count batches; set_policy copies every field; the three built-in policies equal the documented functions (loop-free bodies, enumerated path formulas). "Does not fit" as a semantic fact of the search is not decided.',
        level_note='Trusted: buffer_redux reserve/capacity semantics; sizes below 2^62 (overflow of the policy arithmetic is ignored).',
        undecided=['that a full buffer with the record at offset 0 is the only situation reaching the growth call depends on the value-level search (BUF-2 + GROW-4 give the structural half)'],
        trusted=COMMON_TRUST + ['buffer_redux::BufReader::{capacity, reserve}: reserve(n) makes room for n more bytes; nothing else changes the capacity']),
}
