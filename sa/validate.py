#!/usr/bin/env python3-vt
import json, glob, jsonschema, sys
jsonschema.validate(json.load(open('/verif/MANIFEST.json')), json.load(open('/root/.vp/MANIFEST.schema.json')))
es = json.load(open('/root/.vp/EVIDENCE.schema.json'))
n = 0
for f in glob.glob('/verif/evidence/C??.json'):
    jsonschema.validate(json.load(open(f)), es); n += 1
print('MANIFEST ok, %d evidence files ok' % n)
