#!/usr/bin/env python3
"""allkeys.py <repo-dir> : run every rule group once on the facts of <repo-dir> and print
{property: [violated keys not listed as known findings]} as JSON (used by the mutation survey;
the registered checks are ./check <PID>)."""
import importlib, importlib.machinery, importlib.util, json, os, re, sys
HERE = os.path.dirname(os.path.abspath(__file__))
ROOT = os.path.dirname(HERE)
sys.path.insert(0, HERE)
loader = importlib.machinery.SourceFileLoader('check_cli', os.path.join(ROOT, 'check'))
spec = importlib.util.spec_from_loader('check_cli', loader)
chk = importlib.util.module_from_spec(spec)
loader.exec_module(chk)
import props
from flow import Results
from mir import Program


def main():
    repo = sys.argv[1]
    try:
        facts_path, hsh, _ = chk.get_facts(repo)
        prog = Program.load(facts_path)
    except Exception as e:
        print(json.dumps({'error': str(e)[-400:]}))
        return 1
    R = Results()
    done = set()
    for g, (modname, fn) in props.GROUPS.items():
        try:
            getattr(importlib.import_module(modname), fn)(prog, R)
        except Exception as e:
            print(json.dumps({'error': 'group %s crashed: %r' % (g, e)}))
            return 1
    props.layout_guard(prog, R)
    known = set(k['key'] for k in chk.load_known() if k.get('status') == 'known')
    out = {}
    for pid, sp in props.PROPS.items():
        only = sp.get('only', {})
        ks = []
        for it in R.items:
            if it['ok'] or it['rule'] not in sp['rules'] or it['key'] in known:
                continue
            if it['rule'] in only and not ('/FLOOR' in it['key'] or '/ANCHOR' in it['key'] or re.search(only[it['rule']], it['key'])):
                continue
            ks.append(it['key'])
        if ks:
            out[pid] = sorted(set(ks))
    print(json.dumps(out))
    return 0


if __name__ == '__main__':
    sys.exit(main())
