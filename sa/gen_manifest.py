#!/usr/bin/env python3
"""Regenerates /verif/MANIFEST.json from sa/props.py (claimed checks) and properties.jsonl
(everything else is listed under not_applicable with the reason given in props.NOT_CLAIMED)."""
import json, os, sys
HERE = os.path.dirname(os.path.abspath(__file__))
sys.path.insert(0, HERE)
import props
ROOT = os.path.dirname(HERE)
ids = [json.loads(l)['id'] for l in open(os.path.join(ROOT, 'properties.jsonl'))]
checks = []
for pid in ids:
    if pid not in props.PROPS:
        continue
    s = props.PROPS[pid]
    checks.append({
        'property_id': pid,
        'quick_cmd': './check %s --tier quick' % pid,
        'thorough_cmd': './check %s --tier thorough' % pid,
        'evidence_file': '/verif/evidence/%s.json' % pid,
        'replay_cmd_template': './check %s --replay {path}' % pid,
        'engine': 'seqio-static',
        'level_claimed': {'category': s['level'], 'text': s['level_text'], 'design_ref': 'DESIGN.md section 5 (%s), appendix A' % pid},
        'level_note': s['level_note'],
        'technique': s['technique'],
    })
na = [{'property_id': pid, 'reason': getattr(props, 'NOT_CLAIMED', {}).get(pid, 'check not built yet (framework under construction; see DESIGN.md section 8)')}
      for pid in ids if pid not in props.PROPS]
m = {
    'version': 1,
    'setup_cmd': 'cd /verif/driver && CARGO_NET_OFFLINE=true cargo build --release --offline',
    'hooks': {'guard': 'none', 'enable': 'no hooks: the analysis reads the MIR of /repo through a rustc_private driver (RUSTC_WORKSPACE_WRAPPER under cargo +nightly check); nothing in /repo is instrumented',
              'baseline_off_cmd': 'cd /repo && cargo test --workspace --no-fail-fast --offline', 'source_commits': [], 'add_only': True},
    'engines': [
        {'name': 'seqio-facts (E1)', 'path': '/verif/driver', 'serves_properties': sorted(props.PROPS), 'kind_free_text': 'rustc_private driver dumping type-checked MIR (resolved callees, places with field names, constants, promoteds) of the seq_io library target as JSON'},
        {'name': 'seqio-static (E2..E7)', 'path': '/verif/sa', 'serves_properties': sorted(props.PROPS), 'kind_free_text': 'Python analyses over the MIR facts: CFG/dominators/must-pass-through, interprocedural provenance through closure environments, linear-resource tracking, finite-state abstract interpretation, unit inference, write-effect templates'},
    ],
    'checks': checks,
    'notes': 'Technique family: static analysis only. Every check re-extracts facts from the current /repo working tree (content-addressed cache) and reports violations as rule:function:instance keys. fix: commits in /repo are repairs of genuine defects (known_findings.json), not hooks.',
    'not_applicable': na,
}
json.dump(m, open(os.path.join(ROOT, 'MANIFEST.json'), 'w'), indent=1)
print('claimed:', [c['property_id'] for c in checks], 'not claimed:', len(na))
