"""WRAP-* : the line-budget loop of the wrapping FASTA writer, decided symbolically (property C10).

The writer that wraps a sequence supplied in chunks keeps the fill of the current line (n) and, for each
piece of length c, either writes it whole or writes the part that still fits, a line feed, and carries the
rest on.  Whatever the code looks like, C10 (no line longer than the width, all but the last exactly the
width, same output for every chunking - even empty chunks) needs, for every iteration:

  WRAP-1  a piece is written whole only under conditions implying  c <= width - n ; the fill then grows by c
  WRAP-2  a line feed is written inside the loop only under conditions implying  c > width - n  (bytes follow
          on the next line - otherwise an empty chunk arriving at a full line produces a blank line); the part
          written before it is split off at exactly  width - n ; the fill restarts at 0; the rest is carried on
  WRAP-3  the only widths rejected by the explicit precondition are widths < 1
Solved with the affine path evaluator (scev.py); nothing is executed."""
from flow import *
from mir import roots_of, DefUse
from scev import pretty, Sym, Aff, Agg, Path, linear_preds, preds_hold


def is_lf(v):
    s = v.single() if isinstance(v, Aff) else None
    return isinstance(s, tuple) and s[0] == 'const' and s[1] in ('b"\\n"', "b\"\\n\"")


def normal(p):
    """the path does not take an error (`?` Break) exit"""
    for (_, d, taken) in p.conds:
        s = d.single() if isinstance(d, Aff) else None
        if isinstance(s, tuple) and s[0] == 'discr' and isinstance(s[1], tuple) and (s[1][0] == 'try' or (s[1][0] == 'call' and 'Try::branch' in str(s[1][1]))) and taken == 1:
            return False
    return True


class _PrettyR:
    """forwards to Results, printing loop-header symbols H(n) with the source names of the locals"""
    def __init__(self, R):
        self._R = R

    def add(self, rule, body, instance, ok, where='', detail='', undecided=False):
        return self._R.add(rule, body, instance, ok, where, pretty(body, detail), undecided=undecided)

    def undecided(self, rule, body, instance, where='', detail=''):
        return self._R.undecided(rule, body, instance, where, pretty(body, detail))

    def __getattr__(self, k):
        return getattr(self._R, k)


def run(prog, R):
    R = _PrettyR(R)
    R.rule('WRAP-1', 'wrapping writer: a piece is written whole only under conditions that imply len(piece) <= width - fill, and the fill of the line then grows by exactly len(piece)')
    R.rule('WRAP-2', 'wrapping writer: a line feed is written inside the loop only under conditions that imply len(piece) > width - fill; the part written before it is split off at exactly width - fill, the fill restarts at 0 and the rest of the piece is carried into the next iteration')
    R.rule('WRAP-3', 'wrapping writers: the explicit precondition on the width rejects no width >= 1')
    cands = [b for b in prog.bodies.values() if b.file.endswith('fasta.rs') and b.promoted_of is None and '{closure' not in b.key
             and any(t.callee and t.callee.is_('core::slice::split_at') for _, t in b.calls())
             and any(t.callee and t.callee.is_('std::io::Write::write_all') for _, t in b.calls())]
    if not cands:
        R.anchor_missing('WRAP-1', 'the writer that splits pieces at the remaining line width (slice::split_at + write_all)')
    for b in cands:
        budget_loop(prog, R, b)
    # WRAP-3: every function with a parameter called `wrap` that can panic on a comparison of it
    n3 = 0
    for b in prog.bodies.values():
        if not b.file.endswith('fasta.rs') or b.promoted_of is not None or '{closure' in b.key:
            continue
        wl = [l for l, nm in b.names.items() if nm == 'wrap' and 1 <= l <= b.arg_count]
        if not wl:
            continue
        w = wl[0]
        loops = b.cfg.natural_loops()
        ev = Sym(prog, b)
        base = Aff.sym(('H', w))
        bad = []
        npanic = 0
        for p in ev.run(0, stops=set(loops)):
            if p.end[0] != 'dead':
                continue
            t = b.blocks[p.end[1]].term
            if not (t.k == 'call' and t.callee and 'panic' in t.callee.path):
                continue
            preds = linear_preds(p.conds, base)
            if not preds:
                continue
            npanic += 1
            if any(preds_hold(preds, u) for u in (1, 2, 1000, 1 << 40)):
                bad.append(p.end[1])
        if npanic:
            n3 += 1
            R.add('WRAP-3', b, 'precondition-admits-every-width>=1', not bad, site(b, b.span['lo']),
                  'explicit panics guarded by a comparison of the width: %d; reachable for a width >= 1: %s' % (npanic, bool(bad)))
    R.floor('WRAP-1', 2)
    R.floor('WRAP-2', 4)
    R.floor('WRAP-3', 2)


def budget_loop(prog, R, b):
    where = site(b, b.span['lo'])
    loops = b.cfg.natural_loops()
    sp = [x for x, t in b.calls() if t.callee and t.callee.is_('core::slice::split_at')]
    inner = [h for h, bl in loops.items() if sp[0] in bl]
    if not inner:
        R.anchor_missing('WRAP-2', '%s: loop around split_at' % b.path)
        return
    h_in = min(inner, key=lambda h: len(loops[h]))
    outer = [h for h, bl in loops.items() if h != h_in and h_in in bl]
    stops = {h_in} | ({min(outer, key=lambda h: len(loops[h]))} if outer else set())
    wl = [l for l, nm in b.names.items() if nm == 'wrap' and 1 <= l <= b.arg_count]
    ev = Sym(prog, b)
    paths = [p for p in ev.run(h_in, stops=stops) if normal(p)]
    whole, brk = [], []
    for p in paths:
        ws = [(t, a) for (_, t, a) in p.effects if t.callee and t.callee.is_('std::io::Write::write_all')]
        if any(is_lf(a[1]) for (_, a) in ws if len(a) == 2):
            brk.append((p, ws))
        elif ws:
            whole.append((p, ws))
    if not whole or not brk:
        R.anchor_missing('WRAP-1', '%s: a path writing a piece whole and a path writing a line feed (found %d / %d)' % (b.path, len(whole), len(brk)))
        return
    # the piece and the remaining width, from the split_at call on the line-feed path
    p0, _ = brk[0]
    spa = [a for (_, t, a) in p0.effects if t.callee and t.callee.is_('core::slice::split_at')]
    if not spa or len(spa[0]) != 2 or not isinstance(spa[0][0], Aff) or spa[0][0].single() is None:
        R.anchor_missing('WRAP-2', '%s: split_at(piece, width - fill)' % b.path)
        return
    piece = spa[0][0]
    c = Aff.sym(('len', piece.single()))
    hs = lambda l: Aff.sym(('H', l))
    rem = spa[0][1]          # the remaining width of the line, as the code expresses it (width - fill, or a `room` counter)
    if not isinstance(rem, Aff) or not wl:
        R.undecided('WRAP-2', b, 'split-at-remaining-width', where, 'the split offset %r is not an affine expression of loop-carried values / no parameter called wrap' % (rem,))
        return
    W = hs(wl[0])

    def after(p, a):
        """value of the expression `a` (over loop-header values) in the state at the end of path p"""
        return a.subst(lambda sy: p.env.get(sy[1]) if (isinstance(sy, tuple) and sy[0] == 'H' and isinstance(p.env.get(sy[1]), Aff)) else None)
    u = c - rem                      # > 0  <=> the piece does not fit
    base = u - Aff.const(u.c)
    for p, ws in whole:
        preds = linear_preds(p.conds, base)
        fits = bool(preds) and not any(preds_hold(preds, d - u.c) for d in (1, 2, 1 << 40))
        onlypiece = len(ws) == 1 and ws[0][1][1] == piece
        shrinks = after(p, rem) == rem - c
        R.add('WRAP-1', b, 'whole-piece-only-if-it-fits', fits and onlypiece, where,
              'path writing %s: conditions imply len(piece) <= remaining width %r: %s' % ([repr(a[1]) for _, a in ws], rem, fits))
        R.add('WRAP-1', b, 'fill-grows-by-piece-length', shrinks, where, 'remaining width after writing the piece whole = %r (required: %r)' % (after(p, rem), rem - c))
    for p, ws in brk:
        preds = linear_preds(p.conds, base)
        longer = bool(preds) and not any(preds_hold(preds, d - u.c) for d in (0, -1, -(1 << 40)))
        R.add('WRAP-2', b, 'line-feed-only-if-piece-exceeds-remaining-width', longer, where,
              'path writing %s: conditions imply len(piece) > remaining width: %s (otherwise an empty piece arriving at a full line yields a blank line)' % ([repr(a[1]) for _, a in ws], longer))
        sa = [a for (_, t, a) in p.effects if t.callee and t.callee.is_('core::slice::split_at')]
        okargs = len(sa) == 1 and sa[0][0] == piece and sa[0][1] == rem
        spsym = None
        for (x, t, a) in p.effects:
            if t.callee and t.callee.is_('core::slice::split_at'):
                spsym = ('call', t.callee.path, x)
        first = Aff.sym(('f', spsym, None, '0')) if spsym else None
        second = Aff.sym(('f', spsym, None, '1')) if spsym else None
        order = len(ws) == 2 and ws[0][1][1] == first and is_lf(ws[1][1][1])
        R.add('WRAP-2', b, 'split-at-remaining-width', okargs, where, 'split_at(%s) (required: piece, %r)' % (', '.join(map(repr, sa[0])) if sa else '', rem))
        R.add('WRAP-2', b, 'first-part-then-line-feed', order, where, 'writes on the path: %s' % [repr(a[1]) for _, a in ws])
        # the line restarts with the full width, the rest of the piece is carried on
        pl = piece.single()
        carried = isinstance(pl, tuple) and pl[0] == 'H' and p.env.get(pl[1]) == second
        R.add('WRAP-2', b, 'fill-restarts-and-rest-carried-on', after(p, rem) == W and carried, where,
              'remaining width after the line feed = %r (required: the width %r); piece variable = %r' % (after(p, rem), W, p.env.get(pl[1]) if isinstance(pl, tuple) and pl[0] == 'H' else None))
