"""E5 — UNITS: dimension inference for offsets, lengths, file coordinates and line numbers.

Units: FileOff (byte offset in the input), BufOff (offset in the reader buffer), Len (a number
of bytes), Disp (difference of two file offsets), Line, and None (unknown / neutral).  A value
gets its unit from where it comes from (seed table of fields and external calls) and from the
operator table; values are followed through copies, casts, tuple/Option payloads and through the
return values of crate-internal callees.  Only *definite* unit errors are reported; an unknown
unit is silent, so imprecision costs detection, never a false alarm.
"""
import re
from flow import *
from mir import roots_of, DefUse, Place, Operand
from rules_par import find_call
from rules_err import is_derive

FILEOFF, BUFOFF, LEN, DISP, LINE = 'FileOff', 'BufOff', 'Len', 'Disp', 'Line'

# seed table (confirmed by reading): field name paths (suffixes of the access path)
FIELD_UNITS = [
    (('position', 'byte'), FILEOFF), (('position', 'line'), LINE),
    (('buf_pos', 'start'), BUFOFF), (('search_pos',), BUFOFF), (('buf_pos', 'seq_pos'), BUFOFF),
    (('buf_pos', 'pos', '0'), BUFOFF), (('buf_pos', 'pos', '1'), BUFOFF),
    (('buf_pos', 'seq'), BUFOFF), (('buf_pos', 'sep'), BUFOFF), (('buf_pos', 'qual'), BUFOFF),
]
TYPE_FIELD_UNITS = {   # (type substring of the parameter, field) -> unit
    ('Position', 'byte'): FILEOFF, ('Position', 'line'): LINE,
    ('BufferPosition', 'start'): BUFOFF, ('BufferPosition', 'seq'): BUFOFF, ('BufferPosition', 'sep'): BUFOFF,
    ('BufferPosition', 'qual'): BUFOFF, ('BufferPosition', 'seq_pos'): BUFOFF,
}


def join(a, b):
    if a is None:
        return b
    if b is None or a == b:
        return a
    if {a, b} == {LEN, BUFOFF}:
        return BUFOFF
    return 'CLASH(%s,%s)' % tuple(sorted((a, b)))


class Units:
    def __init__(self, prog):
        self.prog = prog
        self.du = {}
        self.memo = {}

    def du_of(self, b):
        if b.path not in self.du:
            self.du[b.path] = DefUse(b)
        return self.du[b.path]

    def unit_op(self, b, x, suffix0=(), depth=0, active=frozenset()):
        """unit of an operand/place (+ pending field selection) in body b"""
        key = (b.path, x.pretty() if isinstance(x, Operand) else x.key(), tuple(suffix0))
        if key in self.memo:
            return self.memo[key]
        if key in active or depth > 12:
            return None
        active = active | {key}
        u = None
        for r in roots_of(b, x, self.du_of(b), suffix0=suffix0, through_calls=identity_through):
            u = join(u, self.unit_root(b, r, depth, active))
        self.memo[key] = u
        return u

    def unit_root(self, b, r, depth, active):
        k = r[0]
        suffix = r[-1]
        names = tuple(q[1] for q in suffix if q[1] != '[]')
        if k == 'arg':
            for path, u in FIELD_UNITS:
                if names[-len(path):] == path or (len(names) >= len(path) and names[:len(path)] == path):
                    return u
            ty = b.local_tys[r[1]]
            for (tsub, fld), u in TYPE_FIELD_UNITS.items():
                if tsub in ty and names and names[-1] == fld:
                    # BufferPosition appears in both formats; Position.byte / .line are file coordinates
                    if tsub == 'Position' and 'BufferPosition' in ty:
                        continue
                    return u
            return None
        if k == 'const':
            return None
        if k == 'call':
            t = r[1]
            c = t.callee
            if c is None:
                return None
            cb = self.prog.local_callee_body(c)
            if cb is not None:
                return self.unit_op(cb, Place({'l': 0, 'p': []}), tuple(suffix), depth + 1, active)
            tp = c.target_path()
            if c.name in ('len', 'capacity') and not names:
                return LEN
            if tp.startswith('memchr::') or (c.path == 'std::iter::Iterator::next' and 'Memchr' in (c.resolved or '')):
                return LEN
            if c.name in ('position',) and 'iter' in tp:
                return LEN
            if c.path == 'std::iter::Iterator::next':
                # element of an iterator over stored offsets?
                src = roots_of(b, t.args[0], self.du_of(b), through_calls=lambda cc: 0 if cc and (cc.path in IDENTITY_CALLS or cc.name in ('iter', 'iter_mut', 'into_iter')) else None)
                u = None
                for s in src:
                    if s[0] == 'arg':
                        u = join(u, self.unit_root(b, s, depth, active))
                return u
            return None
        if k == 'bin':
            s = r[1]
            op = s.rv.j['op']
            a = self.unit_op(b, s.rv.ops[0], (), depth + 1, active)
            c = self.unit_op(b, s.rv.ops[1], (), depth + 1, active)
            return binop(op, a, c)[0]
        return None


def binop(op, a, c):
    """-> (unit, error text or None)"""
    def bad(x):
        return isinstance(x, str) and x.startswith('CLASH')
    if bad(a) or bad(c):
        return (a if bad(a) else c), None
    if op.startswith('Add'):
        pair = {a, c}
        if a is None and c is None:
            return None, None
        if FILEOFF in pair:
            other = (pair - {FILEOFF}).pop() if len(pair) > 1 else FILEOFF
            if a == c == FILEOFF:
                return 'CLASH', 'file offset + file offset'
            if other in (LEN, BUFOFF, DISP, None):
                return FILEOFF, None
            return 'CLASH', 'file offset + %s' % other
        if LINE in pair:
            other = (pair - {LINE}).pop() if len(pair) > 1 else LINE
            if other in (None, LEN):
                return LINE, None
            return 'CLASH', 'line number + %s' % other
        if a == c == BUFOFF:
            return 'CLASH', 'buffer offset + buffer offset'
        if BUFOFF in pair:
            return BUFOFF, None
        if DISP in pair:
            return (BUFOFF if BUFOFF in pair else DISP), None
        return join(a, c), None
    if op.startswith('Sub'):
        if a == FILEOFF and c == FILEOFF:
            return DISP, None
        if a == FILEOFF and c in (LEN, None, DISP):
            return FILEOFF, None
        if a == FILEOFF and c == BUFOFF:
            return FILEOFF, None       # file offset of the buffer start
        if c == FILEOFF and a is None:
            return None, None          # a quantity of unknown dimension (a parameter of a helper: `byte as i64 - self.position.byte as i64`)
        if c == FILEOFF:
            return 'CLASH', '%s - file offset' % a
        if a == BUFOFF and c == BUFOFF:
            return LEN, None
        if a == BUFOFF:
            return BUFOFF, None
        if a == LINE and c in (None, LEN):
            return LINE, None
        if LINE in (a, c) and a != c:
            return 'CLASH', '%s - %s' % (a, c)
        return (a if a is not None else None), None
    if op in ('Lt', 'Le', 'Gt', 'Ge', 'Eq', 'Ne'):
        if a is None or c is None or a == c:
            return None, None
        if {a, c} <= {LEN, BUFOFF}:
            return None, None
        if {a, c} <= {DISP, LEN}:
            return None, None
        return None, 'comparison of %s with %s' % (a, c)
    return None, None


def reader_bodies(prog, fmt):
    return [b for b in prog.bodies.values() if b.key.startswith('%s::Reader::' % fmt) and not is_derive(b)]


def run(prog, R):
    R.rule('UNIT-1', 'a file coordinate (Position.byte) is only ever assigned: a copy of a file coordinate, or file coordinate +/- a number of bytes; never a buffer-relative offset or a length on its own. Line numbers likewise never receive byte quantities')
    R.rule('UNIT-3', 'every function that re-bases the buffer (BufRead::consume(c)) rewrites every stored buffer offset relative to c (or, when it keeps no offsets, accounts for c in the file coordinate)')
    R.rule('UNIT-5', 'the arithmetic of seek is dimensionally consistent: displacement = file offset - file offset, buffer target = buffer offset + displacement, compared with buffer lengths only')
    U = Units(prog)
    n1 = 0
    for fmt in ('fasta', 'fastq'):
        for b in reader_bodies(prog, fmt):
            if b.key.endswith('::with_capacity') or b.key.endswith('::new') or b.key.endswith('::set_policy'):
                continue
            for blk in b.blocks:
                if blk.idx not in b.cfg.rset:
                    continue
                for s in blk.stmts:
                    if s.k != 'assign' or s.place.local != 1:
                        continue
                    names = tuple(p['name'] for p in s.place.proj if p['k'] == 'field')
                    if names not in (('position', 'byte'), ('position', 'line')):
                        continue
                    want = FILEOFF if names[-1] == 'byte' else LINE
                    n1 += 1
                    rv = s.rv
                    ok, det = True, ''
                    if rv.k in ('use', 'cast'):
                        u = U.unit_op(b, rv.ops[0])
                        if want == FILEOFF:
                            ok = u in (FILEOFF,) or (u is None and rv.ops[0].is_const)
                            if u is None and not rv.ops[0].is_const:
                                ok = True   # unknown: silent
                        else:
                            ok = u in (LINE, None)
                        det = '%s = <%s>' % ('.'.join(names), u)
                    elif rv.k == 'bin':
                        a = U.unit_op(b, rv.ops[0])
                        c = U.unit_op(b, rv.ops[1])
                        u, err = binop(rv.j['op'], a, c)
                        ok = err is None and u == want and not (isinstance(u, str) and u.startswith('CLASH'))
                        if err is None and u is None:
                            # counters / constants of no known dimension (`n_skipped + 1`): nothing contradicts the rule - as for a plain copy
                            ok = True
                        det = '%s = %s(<%s>, <%s>) = <%s>%s' % ('.'.join(names), rv.j['op'], a, c, u, (' : ' + err) if err else '')
                    else:
                        det = '%s assigned from %s' % ('.'.join(names), rv.k)
                    cnt = sum(1 for it in R.items if it['rule'] == 'UNIT-1' and it['key'].startswith('UNIT-1:%s:%s' % (b.key, '.'.join(names))))
                    R.add('UNIT-1', b, '%s#%d' % ('.'.join(names), cnt + 1), ok, site(b, s.line),
                          det + ('' if ok else '  — a %s must be a file coordinate +/- bytes (this is what makes positions independent of the buffer size)' % ('file offset' if want == FILEOFF else 'line number')))
    # whole-struct updates: self.position = Position::new(line, byte)
    for fmt in ('fasta', 'fastq'):
        for b in reader_bodies(prog, fmt):
            if b.key.endswith('::with_capacity') or b.key.endswith('::new') or b.key.endswith('::set_policy'):
                continue
            for x, t in b.calls():
                cb = prog.local_callee_body(t.callee)
                if cb is None or not cb.key.endswith('::Position::new') or len(t.args) != 2:
                    continue
                # does the result end up in self.position ?
                to_pos = t.dest.local == 1 or any(k == 'store' and [p['name'] for p in n.place.proj if p['k'] == 'field'] == ['position']
                                                  for (k, n, i, via) in forward_sinks(b, t.dest.local) if k == 'store')
                if not to_pos:
                    continue
                ub = U.unit_op(b, t.args[1])
                ul = U.unit_op(b, t.args[0])
                ok = ub in (FILEOFF,) or (ub is None)
                okl = ul in (LINE, None)
                R.add('UNIT-1', b, 'position=Position::new', ok and okl, site(b, t.line),
                      'self.position = Position::new(line <%s>, byte <%s>)%s' % (ul, ub, '' if ok and okl else '  — the byte of a position must be a file coordinate, not a buffer-relative number'))
    R.floor('UNIT-1', 6)
    # error fields that are lines
    # ---------------- UNIT-3
    OFFSETS = {'fasta': [('buf_pos', 'start'), ('search_pos',), ('buf_pos', 'seq_pos')],
               'fastq': [('buf_pos', 'pos', '0'), ('buf_pos', 'seq'), ('buf_pos', 'sep'), ('buf_pos', 'qual')]}
    for fmt in ('fasta', 'fastq'):
        for b in reader_bodies(prog, fmt):
            cons = [(x, t) for x, t in find_call(b, 'std::io::BufRead::consume') if not is_discard_all(prog, b, t)]
            if not cons:
                continue
            du = U.du_of(b)
            for ci, (cb_, ct) in enumerate(cons):
                amount_roots = roots_of(b, ct.args[1], du)
                # the offsets may be re-based before or after the buffer is moved (same activation of the function)
                # ... up to the next refill: what is stored after new data arrived are offsets of a new search, not re-based ones
                refill_blocks = set(x for x, t_ in b.calls() if t_.callee is not None and (
                    t_.callee.is_('buffer_redux::BufReader::read_into_buf', 'std::io::BufRead::fill_buf') or
                    (prog.local_callee_body(t_.callee) is not None and find_call(prog.local_callee_body(t_.callee), 'buffer_redux::BufReader::read_into_buf'))))
                after = set(x for x in b.cfg.reachable if cb_ in b.cfg.reach_from(x, removed=refill_blocks - {x}, include_start=True)) | \
                    b.cfg.reach_from(cb_, removed=refill_blocks, include_start=False) | {cb_}
                written = {}
                def self_path(pl):
                    """field path below self of a written place, also through `let bp = &mut self.buf_pos; bp.seq -= ..`"""
                    names = tuple(p['name'] for p in pl.proj if p['k'] == 'field')
                    if pl.local == 1:
                        return names
                    if pl.proj and pl.proj[0]['k'] == 'deref':
                        rs_ = roots_of(b, Place({'l': pl.local, 'p': []}), du)
                        if rs_ and all(r[0] == 'arg' and r[1] == 1 for r in rs_):
                            pre = set(tuple(q[1] for q in r[-1] if q[1] != '[]') for r in rs_)
                            if len(pre) == 1:
                                return pre.pop() + names
                    return None
                unknown_touch = set()
                for x in after:
                    t_ = b.blocks[x].term
                    if t_.k == 'call' and t_.callee is not None and not t_.callee.is_('std::io::BufRead::consume'):
                        # an offset field handed to a call by &mut (mem::replace, iter_mut().for_each(..), a helper): not modelled here
                        for a_ in t_.args:
                            if a_.is_const:
                                continue
                            ty_ = b.local_tys[a_.place.local] if a_.place.is_local() else ''
                            if ty_.startswith('&mut') or 'IterMut' in ty_ or '&mut usize' in ty_:
                                tc_ = lambda c: 0 if c and (c.path in IDENTITY_CALLS or c.name in ('iter_mut', 'into_iter')) else None
                                rs_ = list(roots_of(b, a_, du, through_calls=tc_))
                                # an array / tuple of references (`[seq, sep, qual].into_iter()`): the references it is built from
                                for r in list(rs_):
                                    if r[0] == 'agg':
                                        for o_ in r[1].rv.ops:
                                            if not o_.is_const:
                                                rs_ += list(roots_of(b, o_, du, through_calls=tc_))
                                for r in rs_:
                                    if r[0] == 'arg' and r[1] == 1:
                                        pth = tuple(q[1] for q in r[-1] if q[1] not in ('[]',))
                                        for o in OFFSETS[fmt]:
                                            # the offset itself, or the struct that holds it (`self.buf_pos.line_start_mut(line)`)
                                            if pth[:len(o)] == o or (pth and o[:len(pth)] == pth):
                                                unknown_touch.add(o)
                for x in after:
                    for s in b.blocks[x].stmts:
                        if s.k == 'assign':
                            names = self_path(s.place)
                            if names in OFFSETS[fmt]:
                                written[names] = classify_shift(b, s, ct, du)
                        # *s -= consumed  for s in &mut seq_pos
                        if s.k == 'assign' and s.place.proj and s.place.proj[-1]['k'] == 'deref' and s.rv.k == 'bin' and s.rv.j['op'].startswith('Sub'):
                            src = roots_of(b, Place({'l': s.place.local, 'p': []}), du, through_calls=lambda c: 0 if c and (c.path in IDENTITY_CALLS or c.name in ('iter_mut', 'into_iter', 'next')) else None)
                            for r in src:
                                if r[0] == 'arg' and tuple(q[1] for q in r[-1] if q[1] not in ('[]', '0'))[:2] == ('buf_pos', 'seq_pos'):
                                    written[('buf_pos', 'seq_pos')] = same_amount(b, s.rv.ops[1], ct, du)
                missing = [o for o in OFFSETS[fmt] if o not in written and o not in unknown_touch]
                unjudged = [o for o in OFFSETS[fmt] if o not in written and o in unknown_touch]
                wrong = [o for o, v in written.items() if v is False]
                if consume_amount_is_opaque(prog, b, ct, du) and (missing or (not written)):
                    R.undecided('UNIT-3', b, 'consume#%d:all-offsets-shifted' % (ci + 1), site(b, ct.line),
                                'the consumed amount is a cached quantity / parameter (possibly the whole buffer: a discard, not a re-basing): not judged')
                elif not written and unknown_touch:
                    R.undecided('UNIT-3', b, 'consume#%d:all-offsets-shifted' % (ci + 1), site(b, ct.line),
                                'the stored offsets %s are handed to calls by &mut (mem::replace, for_each, a helper): how they are re-based is not visible to this rule' % sorted('.'.join(o) for o in unknown_touch))
                elif not written:
                    # keeps no offsets: the amount must reach the file coordinate
                    flows = False
                    for x in after:
                        for s in b.blocks[x].stmts:
                            if s.k == 'assign' and s.place.local == 1 and tuple(p['name'] for p in s.place.proj if p['k'] == 'field') == ('position', 'byte') \
                                    and s.rv.k == 'bin' and s.rv.j['op'].startswith('Add'):
                                for o in s.rv.ops:
                                    if same_amount(b, o, ct, du):
                                        flows = True
                    if not flows:
                        # through a private method of the position (`self.position.advance(n_lines, consumed as u64)`) that adds
                        # that parameter to its byte field
                        for x in after:
                            t_ = b.blocks[x].term
                            cb_ = prog.local_callee_body(t_.callee) if t_.k == 'call' else None
                            if cb_ is None or not t_.args:
                                continue
                            r0_ = roots_of(b, t_.args[0], du)
                            if not (r0_ and all(r[0] == 'arg' and r[1] == 1 and tuple(q[1] for q in r[-1]) == ('position',) for r in r0_)):
                                continue
                            for ai, a_ in enumerate(t_.args[1:], start=2):
                                if same_amount(b, a_, ct, du):
                                    for blk2 in cb_.blocks:
                                        for s2 in blk2.stmts:
                                            if s2.k == 'assign' and s2.place.local == 1 and [q['name'] for q in s2.place.proj if q['k'] == 'field'] == ['byte'] \
                                                    and s2.rv.k == 'bin' and s2.rv.j['op'].startswith('Add') and any(
                                                        (not o.is_const) and any(r[0] == 'arg' and r[1] == ai for r in roots_of(cb_, o)) for o in s2.rv.ops):
                                                flows = True
                    R.add('UNIT-3', b, 'consume#%d:accounted-in-file-offset' % (ci + 1), flows, site(b, ct.line),
                          'the function stores no buffer offsets; the consumed amount %s added to Position.byte' % ('is' if flows else 'is NOT'))
                else:
                    R.add('UNIT-3', b, 'consume#%d:all-offsets-shifted' % (ci + 1), not missing and not wrong, site(b, ct.line),
                          'offsets rewritten around consume: %s; missing: %s; not shifted by the consumed amount: %s%s' % (sorted('.'.join(o) for o in written), ['.'.join(o) for o in missing], ['.'.join(o) for o in wrong],
                              ('; handed to a call by &mut and not judged: %s' % ['.'.join(o) for o in unjudged]) if unjudged else ''),
                          undecided=(not missing and not wrong and bool(unjudged)))
    R.floor('UNIT-3', 3)
    # ---------------- UNIT-3b: FASTQ — valid offsets are shifted, the others recomputed (exhaustive over RecordPos)
    R.rule('UNIT-3b', 'FASTQ: for every part p in which a record search can be interrupted, the compaction shifts exactly the line offsets that are valid at p (those the search assigned before stopping at p) and the resumed search recomputes all the others')
    unit3b(prog, R)
    # ---------------- EPOS-6: the line counter moves with the byte counter
    R.rule('EPOS-6', 'the file line counter is advanced in the same function and on the same paths as the file byte offset (the advance over a record: +4 lines for FASTQ, + number of line offsets for FASTA); apart from that it is only initialised at the first record and copied by seek')
    from fsm import Interp
    for fmt in ('fasta', 'fastq'):
        it = Interp(prog, fmt)
        writers = {}
        for b in reader_bodies(prog, fmt):
            if b.key.endswith('::with_capacity') or b.key.endswith('::new') or b.key.endswith('::set_policy'):
                continue
            for blk in b.blocks:
                if blk.idx not in b.cfg.rset:
                    continue
                for st in blk.stmts:
                    if st.k == 'assign' and st.place.local == 1:
                        names = tuple(p['name'] for p in st.place.proj if p['k'] == 'field')
                        if names in (('position', 'line'), ('position',)):
                            writers.setdefault(b.path, []).append((blk.idx, st, names))
        if not it.advance:
            R.anchor_missing('EPOS-6', '%s: advance function' % fmt)
            continue
        def line_update_ok(body, st):
            """`position.line = position.line + X` with the per-format X"""
            if not (st.rv.k == 'bin' and st.rv.j['op'].startswith('Add')):
                return False
            def reads_line(o):
                if o.is_const:
                    return False
                if [p['name'] for p in o.place.proj if p['k'] == 'field'] == ['position', 'line']:
                    return True
                rs_ = roots_of(body, o, U.du_of(body))
                return bool(rs_) and all(r[0] == 'arg' and r[1] == 1 and tuple(q[1] for q in r[-1]) == ('position', 'line') for r in rs_)
            other = [o for o in st.rv.ops if not reads_line(o)]
            if len(other) != 1:
                return False
            o = other[0]
            if fmt == 'fastq':
                return o.const_int() == 4
            rs = roots_of(body, o, U.du_of(body), through_calls=identity_through)
            return bool(rs) and all(r[0] == 'call' and r[1].callee.name == 'len' and
                                    all(q[0] == 'arg' and [z[1] for z in q[-1]] == ['buf_pos', 'seq_pos'] for q in roots_of(body, r[1].args[0], U.du_of(body), through_calls=identity_through))
                                    for r in rs)

        def equivalent(body, x, y):
            return x == y or (body.cfg.dominates(x, y) and body.cfg.postdominates(y, x)) or (body.cfg.dominates(y, x) and body.cfg.postdominates(x, y))
        paired_line_stmts = set()
        nadv = 0
        for ap in sorted(it.advance):
            ab = prog.bodies[ap]
            for blk in ab.blocks:
                if blk.idx not in ab.cfg.rset:
                    continue
                for st in blk.stmts:
                    if id(st) not in it.advance_stmts:
                        continue
                    nadv += 1
                    partner = None
                    for (bi, st2, names) in writers.get(ap, []):
                        if names == ('position', 'line') and line_update_ok(ab, st2) and equivalent(ab, blk.idx, bi):
                            partner = st2
                            paired_line_stmts.add(id(st2))
                    if partner is None:
                        # the new position built as a whole: `self.position = Position::new(self.position.line + 4, self.position.byte + extent)`
                        for x_, t_ in ab.calls():
                            cb_ = prog.local_callee_body(t_.callee)
                            if cb_ is not None and cb_.key.endswith('::Position::new') and len(t_.args) == 2 and equivalent(ab, blk.idx, x_):
                                lr = roots_of(ab, t_.args[0], U.du_of(ab))
                                br = [r for r in roots_of(ab, t_.args[1], U.du_of(ab)) if r[0] == 'bin']
                                if lr and all(r[0] == 'bin' and line_update_ok(ab, r[1]) for r in lr) and any(id(r[1]) == id(st) for r in br):
                                    partner = t_
                                    for (bi, st2, names) in writers.get(ap, []):
                                        if names == ('position',) and st2.rv.k == 'use' and any(r[0] == 'call' and r[1] is t_ for r in roots_of(ab, st2.rv.ops[0], U.du_of(ab))):
                                            paired_line_stmts.add(id(st2))
                    R.add('EPOS-6', ab, 'lines-advance-with-bytes#%d' % nadv, partner is not None, site(ab, st.line),
                          'the advance over a record (position.byte += extent) is %s by position.line += %s on the same paths' % (
                              'accompanied' if partner is not None else 'NOT accompanied', '4' if fmt == 'fastq' else 'number of line offsets'))
        for wp, ws in sorted(writers.items()):
            wb = prog.bodies[wp]
            for (bi, st, names) in ws:
                if id(st) in paired_line_stmts:
                    continue
                if wb.key.endswith('::seek'):
                    okw = names == ('position',)
                    why = 'seek copies the target position'
                elif (names == ('position', 'line') and (st.rv.k in ('use', 'cast') or (st.rv.k == 'bin' and not any(
                        (not o.is_const) and any(r[0] == 'arg' and r[1] == 1 and tuple(q[1] for q in r[-1]) == ('position', 'line') for r in roots_of(wb, o))
                        for o in st.rv.ops)))) or names == ('position',):
                    # an assignment that does not read the counter itself (`= n`, `= n_skipped + 1`) is an initialisation, not an update
                    # (a whole `position = Position::new(line, byte)` at the first record counts as the same
                    # initialisation; what goes into its byte component is UNIT-1's business)
                    # initialisation at the first record: same function also sets the record start
                    sets_start = any(s2.k == 'assign' and s2.place.local == 1 and tuple(p['name'] for p in s2.place.proj if p['k'] == 'field') in (('buf_pos', 'start'), ('buf_pos', 'pos', '0'))
                                     for blk2 in wb.blocks for s2 in blk2.stmts)
                    okw = sets_start
                    why = 'initialisation at the first record'
                else:
                    okw = False
                    why = 'the line counter is changed outside the advance over a record (error lines and positions then depend on where a batch ends)'
                cnt = sum(1 for x in R.items if x['rule'] == 'EPOS-6' and x['key'].startswith('EPOS-6:%s:writer' % wb.key))
                R.add('EPOS-6', wb, 'writer#%d' % (cnt + 1), okw, site(wb, st.line), why)
    R.floor('EPOS-6', 4)
    # ---------------- UNIT-5
    for fmt in ('fasta', 'fastq'):
        try:
            b = prog.get('%s::Reader::seek' % fmt)
        except KeyError:
            R.anchor_missing('UNIT-5', '%s::Reader::seek' % fmt)
            continue
        n = 0
        for blk in b.blocks:
            if blk.idx not in b.cfg.rset:
                continue
            for s in blk.stmts:
                if s.k == 'assign' and s.rv.k == 'bin' and s.rv.j['op'] in ('Add', 'Sub', 'Lt', 'Le', 'Gt', 'Ge', 'Eq', 'Ne', 'AddUnchecked', 'SubUnchecked'):
                    a = U.unit_op(b, s.rv.ops[0])
                    c = U.unit_op(b, s.rv.ops[1])
                    if a is None and c is None:
                        continue
                    u, err = binop(s.rv.j['op'], a, c)
                    n += 1
                    R.add('UNIT-5', b, 'op#%d:%s' % (n, s.rv.j['op']), err is None and not (isinstance(u, str) and u.startswith('CLASH')), site(b, s.line),
                          '%s(<%s>, <%s>) -> <%s>%s' % (s.rv.j['op'], a, c, u, (' : ' + err) if err else ''))
                # stores into buffer-offset fields must not be a bare displacement
                if s.k == 'assign' and s.place.local == 1:
                    names = tuple(p['name'] for p in s.place.proj if p['k'] == 'field')
                    if names in (('search_pos',),) and s.rv.k in ('use', 'cast'):
                        u = U.unit_op(b, s.rv.ops[0])
                        n += 1
                        R.add('UNIT-5', b, 'store#%d:%s' % (n, '.'.join(names)), u in (BUFOFF, LEN, None), site(b, s.line), '%s <- <%s>' % ('.'.join(names), u))
            t = blk.term
            if t.k == 'call' and prog.local_callee_body(t.callee) is not None and 'BufferPosition' in prog.local_callee_body(t.callee).key and len(t.args) == 2:
                u = U.unit_op(b, t.args[1])
                n += 1
                R.add('UNIT-5', b, 'reset#%d' % n, u in (BUFOFF, LEN, None), site(b, t.line), 'buffer offsets reset to <%s>' % u)
    R.floor('UNIT-5', 8)
    return {}


def same_amount(b, op, consume_term, du):
    """does operand `op` denote the amount passed to this consume call?"""
    r1 = roots_of(b, op, du)
    r2 = roots_of(b, consume_term.args[1], du)

    def sig(rs):
        out = set()
        for r in rs:
            if r[0] == 'arg':
                out.add(('arg', r[1], tuple(q[1] for q in r[-1])))
            elif r[0] in ('bin', 'un', 'agg', 'other', 'discr'):
                out.add((r[0], id(r[1])))
            elif r[0] == 'call':
                out.add(('call', id(r[1])))
            elif r[0] == 'const':
                out.add(('const', r[1].pretty()))
        return out
    return bool(r1) and sig(r1) == sig(r2)


def classify_shift(b, s, consume_term, du):
    """assignment to a stored offset after consume: True if const 0 or old - amount"""
    rv = s.rv
    if rv.k == 'use' and rv.ops[0].is_const and rv.ops[0].const_int() == 0:
        return True
    if rv.k == 'bin' and rv.j['op'].startswith('Sub'):
        return same_amount(b, rv.ops[1], consume_term, du)
    return False


def unit3b(prog, R):
    from fsm import Interp, Heap, E, classify
    it = Interp(prog, 'fastq')
    fresh = [prog.bodies[p] for p in it.locate if prog.bodies[p].arg_count == 1]
    if len(fresh) != 1 or 'fastq::RecordPos' not in prog.adts:
        R.anchor_missing('UNIT-3b', 'the fresh record search of the fastq reader (search-family function without parameters), found %d' % len(fresh))
        return
    search = fresh[0]
    rp = [v['name'] for v in prog.adts['fastq::RecordPos']['variants']]
    it.track_writes = True
    LINES = {'seq', 'sep', 'qual'}
    h0 = Heap(state='Parsing', inc='None', complete=False, setc='old', dirty=False, pushed=False, w=(), incv='-')
    # compaction / resumed-search functions: the reader functions taking a RecordPos argument that
    # call consume (compaction) resp. are in the search family's callee set and assign line offsets
    comp = [b for b in prog.bodies.values() if b.key.startswith('fastq::Reader::') and any('RecordPos' in t for t in b.local_tys[1:b.arg_count + 1])
            and any(t.callee and t.callee.is_('std::io::BufRead::consume') for _, t in b.calls())]
    resum = [b for b in prog.bodies.values() if b.key.startswith('fastq::Reader::') and any('RecordPos' in t for t in b.local_tys[1:b.arg_count + 1])
             and b.local_tys[0].startswith('std::result::Result<std::option::Option<fastq::RecordPos>')]
    if len(comp) != 1 or len(resum) != 1:
        R.anchor_missing('UNIT-3b', 'compaction function (found %d) / resumed line search (found %d)' % (len(comp), len(resum)))
        return
    comp, resum = comp[0], resum[0]
    # valid(p): offsets assigned by the fresh search before it stops at p
    valid = {}
    for (rv, hp) in it.run_fn(search, h0.copy(), [('rself',)]):
        if classify(rv) == 'Ok' and hp.get('incv') in rp:
            w = set(f for f, k in hp.get('w', ()) if f in LINES)
            valid.setdefault(hp['incv'], set()).update(w)
    for p in rp:
        if p not in valid:
            R.undecided('UNIT-3b', search, 'stage:%s' % p, site(search, search.span['lo']), 'the fresh search is not seen to stop in part %s in this shape of the code (cannot determine which offsets are valid there): not judged' % p)
            continue
        arg = E('fastq::RecordPos', p)
        hp_in = h0.copy()
        hp_in['inc'] = 'Some'
        shifted, other = set(), set()
        outs = it.run_fn(comp, hp_in.copy(), [('rself',), arg])
        for (rv, hp) in outs:
            for f, k in hp.get('w', ()):
                if f in LINES:
                    (shifted if k in ('shift', 'zero') else other).add(f)
        # (a function that either compacts or grows - `provide_space(part, may_move)` - : the outcomes in which it moved offsets)
        outs_c = [o for o in outs if o[1].get('w')] or outs
        start_ok = all(any(f == 'pos.0' and k == 'zero' for f, k in hp.get('w', ())) for (rv, hp) in outs_c) and bool(outs_c)
        recomputed = set()
        for (rv, hp) in it.run_fn(resum, hp_in.copy(), [('rself',), arg]):
            for f, k in hp.get('w', ()):
                if f in LINES and k == 'set':
                    recomputed.add(f)
        ok = shifted == valid[p] and not other and recomputed >= (LINES - valid[p]) and start_ok
        # offsets that the compaction function borrows mutably (`for s in [seq, sep, qual].into_iter().take(n) { *s -= .. }`,
        # a helper taking `&mut usize`): shifts made through such references are not visible to the interpreter
        borrowed = set()
        for blk_ in comp.blocks:
            for s_ in blk_.stmts:
                if s_.k == 'assign' and s_.rv.k == 'ref' and s_.rv.j.get('mut') and s_.rv.place is not None:
                    names_ = [q['name'] for q in s_.rv.place.proj if q['k'] == 'field']
                    if names_[:1] == ['buf_pos']:
                        borrowed |= ((LINES | {'pos'}) if len(names_) == 1 else (set(names_[1:2]) & (LINES | {'pos'})))
        # ... and the same for the resumed search (line ends stored through `set_line_end(&mut self, line, ..)`)
        borrowed_r = set()
        for blk_ in resum.blocks:
            for s_ in blk_.stmts:
                if s_.k == 'assign' and s_.rv.k == 'ref' and s_.rv.j.get('mut') and s_.rv.place is not None:
                    names_ = [q['name'] for q in s_.rv.place.proj if q['k'] == 'field']
                    if names_[:1] == ['buf_pos']:
                        borrowed_r |= (LINES if len(names_) == 1 else (set(names_[1:2]) & LINES))
        hidden = (not ok) and bool(borrowed) and (valid[p] - shifted) <= borrowed and not other and not (shifted - valid[p]) and \
            ((LINES - valid[p]) - recomputed) <= borrowed_r and (start_ok or 'pos' in borrowed)
        R.add('UNIT-3b', comp, 'stage:%s' % p, ok, site(comp, comp.span['lo']),
              'stopped in %s: valid %s; compaction shifts %s (record start := 0: %s); resumed search recomputes %s%s' % (
                  p, sorted(valid[p]), sorted(shifted), start_ok, sorted(recomputed),
                  '; %s are borrowed mutably in the compaction function (shifts through the references are not visible here): not judged' % sorted(borrowed) if hidden else ''),
              undecided=hidden)
    # STAGE-1: when the resumed search is suspended again, the part it names is the one in which it
    # stopped: the offsets known at that point (valid at entry + assigned on the way) are exactly
    # the ones a fresh search knows when it stops in that part
    R.rule('STAGE-1', 'FASTQ: when the resumed line search is suspended again, the part it records (and reports in UnexpectedEnd) matches the lines found so far')
    ns = 0
    for p0 in rp:
        if p0 not in valid:
            continue
        hp_in = h0.copy()
        hp_in['inc'] = 'Some'
        hp_in['incv'] = p0
        for (rv, hp) in it.run_fn(resum, hp_in.copy(), [('rself',), E('fastq::RecordPos', p0)]):
            if not (isinstance(rv, tuple) and rv[0] == 'e' and rv[2] == 'Ok' and rv[3] and isinstance(rv[3][0], tuple) and rv[3][0][0] == 'e' and rv[3][0][2] == 'Some'):
                continue
            q = hp.get('incv')
            ret_q = rv[3][0][3][0][2] if rv[3][0][3] and isinstance(rv[3][0][3][0], tuple) and rv[3][0][3][0][0] == 'e' else '?'
            known = set(valid[p0]) | set(f for f, k in hp.get('w', ()) if f in LINES and k == 'set')
            ok = q in valid and known == valid[q] and (ret_q in ('?', q))
            ns += 1
            R.add('STAGE-1', resum, 'entered:%s->suspended:%s' % (p0, q), ok, site(resum, resum.span['lo']),
                  'entered in %s, suspended again recording %s (returned %s) with offsets %s known; a fresh search stopping in %s knows %s' % (
                      p0, q, ret_q, sorted(known), q, sorted(valid.get(q, ['?']))),
                  undecided=(not ok) and q not in rp)      # the recorded part is a computed value (a cursor of a loop): not judged
    R.floor('STAGE-1', 4)
    R.floor('UNIT-3b', 4)
