def run(prog, R):
    R.rule('UNIT-1', '(engine under construction)')
    return {}
