"""ALLOC-1..3 (DESIGN appendix A.8) — property C18."""
import re
from flow import *
from mir import roots_of, DefUse, Place
from rules_par import find_call
from rules_err import is_derive

ALLOC_NAMES = {'push', 'extend', 'extend_from_slice', 'reserve', 'reserve_exact', 'with_capacity', 'to_vec', 'to_owned',
               'collect', 'insert', 'append', 'resize', 'resize_with', 'from_utf8_lossy', 'to_string', 'format',
               'into_owned', 'into_boxed_slice', 'concat', 'join', 'repeat', 'split_off', 'into_bytes', 'clone_from'}
ALLOC_TYPES = ('std::vec::Vec', 'std::string::String', 'std::boxed::Box', 'std::collections::', 'std::borrow::Cow')


def allocating(callee):
    """is this (external) callee able to allocate?  classification by API, conservative list"""
    tp = callee.target_path()
    if tp.startswith('std::vec::Vec::new') or tp.startswith('std::string::String::new'):
        return False            # no allocation until something is pushed
    if callee.name in ALLOC_NAMES and any(t in tp or t in callee.path for t in ALLOC_TYPES + ('slice::', 'std::iter::Iterator', 'std::iter::Extend', 'buffer_redux', 'std::borrow::ToOwned', 'std::string::ToString')):
        return True
    if callee.name == 'clone' and any(t in tp for t in ALLOC_TYPES):
        return True
    if callee.name in ('new',) and 'std::boxed::Box' in tp:
        return True
    if callee.path in ('std::convert::Into::into', 'std::convert::From::from'):
        return any(t in ' '.join(callee.targs) for t in ('std::vec::Vec', 'std::string::String')) and not all('&' in t for t in callee.targs)
    return False


def container_through(callee):
    if callee is None:
        return None
    if callee.path in IDENTITY_CALLS or callee.path in ('std::ops::Index::index', 'std::ops::IndexMut::index_mut'):
        return 0
    if callee.name in ('get_mut', 'get', 'last_mut', 'first_mut', 'iter_mut', 'unwrap') and ('slice' in callee.path or 'Option' in callee.path or 'Vec' in callee.path):
        return 0
    if callee.path == 'std::iter::Iterator::next':
        return 0
    return None


def run(prog, R):
    R.rule('ALLOC-1', 'allocation-capable calls reachable from the reading operations (outside error construction) only grow persistent containers in place: their receiver is a field of the reader or of the caller-supplied record set (a clone is accepted only as the argument of such a push)')
    R.rule('ALLOC-2', 'the persistent containers (offset vectors, record-set buffers, position lists) are never assigned, replaced or taken as a whole outside constructors')
    R.rule('ALLOC-3', 'borrowed records hold references only')
    # ---- ALLOC-3
    for fmt in ('fasta', 'fastq'):
        adt = prog.adts.get('%s::RefRecord' % fmt)
        if adt is None:
            R.anchor_missing('ALLOC-3', '%s::RefRecord' % fmt)
            continue
        for fd in adt['variants'][0]['fields']:
            R.add('ALLOC-3', '%s::RefRecord' % fmt, 'field:%s' % fd['name'], fd['ty'].startswith('&'), adt['span']['file'], 'field %s: %s' % (fd['name'], fd['ty']))
    R.floor('ALLOC-3', 4)
    # ---- scope
    roots = []
    for fmt in ('fasta', 'fastq'):
        for m in ('next', 'read_record_set_exact', 'read_record_set'):
            try:
                roots.append(prog.get('%s::Reader::%s' % (fmt, m)))
            except KeyError:
                R.anchor_missing('ALLOC-1', '%s::Reader::%s' % (fmt, m))
    roots += [b for b in prog.bodies.values() if ('RecordSetIter' in b.path and 'Iterator>::next' in b.path) or ('RecordSet as std::iter::IntoIterator>::into_iter' in b.path)]
    reach = prog.reachable_from(roots)
    seekers = [b for b in prog.bodies.values() if re.match(r'(fasta|fastq)::Reader::seek$', b.key)]
    n = {}
    # error construction helpers (they allocate the id string) and the private functions only they call
    cg = prog.call_graph()
    callers = {}
    for a_, bs_ in cg.items():
        for b_ in bs_:
            callers.setdefault(b_, set()).add(a_)
    # (functions that return an error position or the error value itself - `fn report(&self, defect) -> Error`)
    errh = set(p for p in reach if ('ErrorPosition' in prog.bodies[p].local_tys[0] or prog.bodies[p].local_tys[0].strip() in ('fasta::Error', 'fastq::Error'))
               and 'Result' not in prog.bodies[p].local_tys[0])
    def only_feeds_errors(p):
        """every call of p hands its result to an error-construction helper / an error value and nowhere else
        (`self.error_pos(0, self.record_id())`): p produces data of the error, on the error path"""
        pb = prog.bodies[p]
        if 'String' not in pb.local_tys[0] or 'Result' in pb.local_tys[0]:
            return False
        sites = [(prog.bodies[a_], t_) for a_ in callers.get(p, ()) if a_ in prog.bodies for _, t_ in prog.bodies[a_].calls() if prog.local_callee_body(t_.callee) is pb]
        if not sites:
            return False
        for cb_, t_ in sites:
            if not t_.dest.is_local():
                return False
            sinks = [x for x in forward_sinks(cb_, t_.dest.local) if x[0] in ('call', 'agg', 'ret', 'store')]
            if not sinks:
                return False
            for (k_, n_, i_, via_) in sinks:
                if k_ == 'call' and prog.local_callee_body(n_.callee) is not None and prog.local_callee_body(n_.callee).path in errh:
                    continue
                if k_ == 'call' and n_.callee is not None and n_.callee.path.startswith(('std::mem::drop', 'std::ptr::drop_in_place')):
                    continue
                # handed on inside the error value (`self.fail(Error::InvalidSep { pos: ErrorPosition { id, .. }, .. })`)
                cbk = prog.local_callee_body(n_.callee) if k_ == 'call' and n_.callee is not None else None
                if cbk is not None and i_ + 1 < len(cbk.local_tys) and i_ < cbk.arg_count and any(x in cbk.local_tys[i_ + 1] for x in ('::Error', 'ErrorPosition')):
                    continue
                if k_ == 'call' and n_.callee is not None and n_.callee.path in ('std::convert::From::from', 'std::convert::Into::into', 'std::ops::FromResidual::from_residual', 'std::ops::Try::from_output'):
                    continue
                if k_ == 'ret' and any(x in cb_.local_tys[0] for x in ('::Error', 'ErrorPosition')):
                    continue
                if k_ == 'agg' and any(x in str(n_.rv.j.get('adt', '')) for x in ('Error', 'ErrorPosition', 'Option', 'Result')):
                    continue
                return False
        return True
    changed = True
    while changed:
        changed = False
        for p in reach:
            if p not in errh and callers.get(p) and (callers[p] <= errh or only_feeds_errors(p)):
                errh.add(p)
                changed = True
    for p in sorted(reach):
        b = prog.bodies[p]
        if p in errh:
            continue                 # error construction helper (allocates the id string)
        du = DefUse(b)
        for x, t in b.calls():
            c = t.callee
            if c is None or prog.local_callee_body(c) is not None:
                continue
            if not allocating(c):
                continue
            short = c.name
            n[(p, short)] = n.get((p, short), 0) + 1
            inst = '%s#%d' % (short, n[(p, short)])
            if is_derive(b) and 'Clone' in b.path:
                # derived clone of the offset struct: judged at its call sites
                R.add('ALLOC-1', b, inst, True, site(b, t.line), 'inside the derived Clone of an offset struct (judged at its call sites)')
                continue
            if c.name == 'clone' or c.path in ('std::clone::Clone::clone',):
                # accepted only as the value pushed into a persistent container
                sinks = [tt for (k, tt, i, via) in forward_sinks(b, t.dest.local) if k == 'call']
                ok = bool(sinks) and all(tt.callee and tt.callee.name == 'push' and persistent(b, tt.args[0], du) for tt in sinks)
                R.add('ALLOC-1', b, inst, ok, site(b, t.line), 'clone() %s' % ('is the value pushed into a persistent container (warm-up only)' if ok else 'creates a fresh owned value on the reading path'))
                continue
            if is_derive(b) and 'Clone' in b.path:
                # derived clone of the offset struct: covered at its call sites
                R.add('ALLOC-1', b, inst, True, site(b, t.line), 'inside the derived Clone of an offset struct (judged at its call sites)')
                continue
            if not t.args:
                R.add('ALLOC-1', b, inst, False, site(b, t.line), '%s creates a fresh container on the reading path' % c.target_path())
                continue
            ok = persistent(b, t.args[0], du)
            R.add('ALLOC-1', b, inst, ok, site(b, t.line), '%s on %s' % (c.target_path(), 'a persistent container (in-place growth)' if ok else 'a temporary: allocates per record'))
    # local callees that are themselves derived clones: BufferPosition::clone call sites
    for p in sorted(reach):
        b = prog.bodies[p]
        du = DefUse(b)
        for x, t in b.calls():
            cb = prog.local_callee_body(t.callee)
            if cb is not None and is_derive(cb) and 'Clone' in cb.path:
                sinks = [tt for (k, tt, i, via) in forward_sinks(b, t.dest.local) if k == 'call']
                ok = bool(sinks) and all(tt.callee and tt.callee.name == 'push' and persistent(b, tt.args[0], du) for tt in sinks)
                n[(p, 'clone')] = n.get((p, 'clone'), 0) + 1
                R.add('ALLOC-1', b, 'clone#%d' % n[(p, 'clone')], ok, site(b, t.line), 'clone of the offset struct %s' % ('is only pushed into the record set (warm-up)' if ok else 'is used otherwise: allocates per record'))
    R.floor('ALLOC-1', 10)
    # ---- ALLOC-2
    cont = re.compile(r'std::vec::Vec<|fasta::BufferPosition$|::RecordSet$')
    checked = 0
    for p in sorted(reach | prog.reachable_from(seekers)):
        b = prog.bodies[p]
        if is_derive(b):
            continue
        for blk in b.blocks:
            if blk.idx not in b.cfg.rset:
                continue
            for s in blk.stmts:
                if s.k != 'assign' or not s.place.proj:
                    continue
                # `*self = ...` through a &mut to a container object
                if [q['k'] for q in s.place.proj] == ['deref'] and s.place.local <= b.arg_count and s.place.local >= 1:
                    pty = b.local_tys[s.place.local]
                    if pty.startswith('&mut') and cont.search(pty.replace('&mut ', '').strip()):
                        R.add('ALLOC-2', b, 'assign:*%s' % b.names.get(s.place.local, '_%d' % s.place.local), False, site(b, s.line),
                              'the container object behind %s is replaced as a whole: its allocations are dropped and must be re-made' % pty)
                    continue
                last = [q for q in s.place.proj if q['k'] == 'field']
                if not last:
                    continue
                fty = last[-1].get('ty', '')
                if s.place.proj[-1]['k'] != 'field':
                    continue
                if cont.search(fty.replace(' ', '')) or cont.search(fty):
                    checked += 1
                    R.add('ALLOC-2', b, 'assign:%s' % '.'.join(q['name'] for q in last), False, site(b, s.line),
                          'the container %s (%s) is replaced as a whole: its allocation is dropped and must be re-made' % ('.'.join(q['name'] for q in last), fty))
            t = blk.term
            if t.k == 'call' and t.callee and t.callee.path in ('std::mem::replace', 'std::mem::take', 'std::mem::swap'):
                ty = b.local_tys[t.args[0].place.local] if not t.args[0].is_const else ''
                if cont.search(ty):
                    R.add('ALLOC-2', b, 'mem-%s' % t.callee.name, False, site(b, t.line), 'container replaced through %s' % t.callee.path)
            if t.k == 'drop' and t.place.proj:
                last = [q for q in t.place.proj if q['k'] == 'field']
                if last and cont.search(last[-1].get('ty', '')) and t.place.local <= b.arg_count:
                    R.add('ALLOC-2', b, 'drop:%s' % '.'.join(q['name'] for q in last), False, site(b, t.line), 'container field dropped on the reading path')
        R.add('ALLOC-2', b, 'no-container-replaced', True, site(b, b.span['lo']), 'no whole assignment / replace / drop of a persistent container in this function')
    R.floor('ALLOC-2', 20)


def persistent(b, op, du):
    """is the operand (a &mut to) a container that lives in the reader or in the record set
    handed in by the caller?  root = parameter with a field path (through deref / indexing /
    get_mut / iter_mut items)"""
    rs = roots_of(b, op, du, through_calls=container_through)
    if not rs:
        return False
    for r in rs:
        if r[0] == 'arg' and r[-1]:
            continue
        if r[0] == 'arg' and b.local_tys[r[1]].startswith('&mut') and ('BufferPosition' in b.local_tys[r[1]] or 'RecordSet' in b.local_tys[r[1]] or 'Vec<' in b.local_tys[r[1]] or 'BufReader<' in b.local_tys[r[1]]):
            continue     # helper taking &mut self of a persistent struct (BufferPosition::update)
        return False
    return True
