#!/usr/bin/env python3
"""prints the path of the fact file for /repo's current tree (extracting it if necessary)"""
import importlib.util, importlib.machinery, sys, os
spec = importlib.util.spec_from_loader('check', importlib.machinery.SourceFileLoader('check', os.path.join(os.path.dirname(os.path.abspath(__file__)), '..', 'check')))
m = importlib.util.module_from_spec(spec); spec.loader.exec_module(m)
print(m.get_facts(sys.argv[1] if len(sys.argv) > 1 else '/repo')[0])
