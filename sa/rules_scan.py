"""SCAN-* : induction-variable analysis of the FASTA blank-line scan that precedes the first record
(properties C01, C03, C05, C06, C17).

The scan is a loop over `buffer.split(LF)` inside a refill loop.  It carries an offset accumulator, a line
counter and the length of the last piece.  Whatever they are called and however the arithmetic is
written, the property needs these recurrences and closed forms (K pieces of lengths len_1..len_K in a
buffer of SUM(len)+K-1 bytes):

  SCAN-1  per piece the offset accumulator grows by len+1 and the line counter by 1
  SCAN-2  the hit returns (counter incl. the current piece, accumulator before the current piece, piece[0])
  SCAN-3  when the pieces are exhausted: consumed = buffer length - length of the last (unterminated)
          piece; the same amount is added to the file offset of the buffer start; the line counter is
          taken back by exactly one (the last piece is scanned again); the buffer is compacted before the
          refill
The recurrences are solved symbolically (scev.py); nothing is executed."""
from flow import *
from mir import roots_of, DefUse, Place
from scev import pretty, Sym, Aff, Agg, Path, recurrence


class _PrettyR:
    """forwards to Results, printing loop-header symbols H(n) with the source names of the locals"""
    def __init__(self, R):
        self._R = R

    def add(self, rule, body, instance, ok, where='', detail='', undecided=False):
        return self._R.add(rule, body, instance, ok, where, pretty(body, detail), undecided=undecided)

    def undecided(self, rule, body, instance, where='', detail=''):
        return self._R.undecided(rule, body, instance, where, pretty(body, detail))

    def __getattr__(self, k):
        return getattr(self._R, k)


def run(prog, R):
    R = _PrettyR(R)
    R.rule('SCAN-1', 'blank-line scan: per piece of the split the offset accumulator advances by exactly len(piece)+1 and the line counter by exactly 1 (recurrences solved symbolically)')
    R.rule('SCAN-2', 'blank-line scan: the first non-blank piece is reported as (lines counted including it, offset accumulated before it, its first byte)')
    R.rule('SCAN-3', 'blank-line scan: when a buffer holds only blank pieces, exactly the complete lines are consumed (buffer length minus the unterminated last piece), the same amount is added to the file offset of the buffer start, the line counter is taken back by exactly one for the piece that is scanned again, and the buffer is compacted before it is refilled')
    cands = []
    for b in prog.bodies.values():
        if not b.key.startswith('fasta::Reader') or b.promoted_of is not None or '{closure' in b.key:
            continue
        if any(t.callee and t.callee.is_('core::slice::split') for _, t in b.calls()):
            cands.append(b)
    if not cands:
        for r in ('SCAN-1', 'SCAN-2', 'SCAN-3'):
            R.anchor_missing(r, 'fasta::Reader function that scans the buffer with slice::split')
        return
    refills = refill_names(prog)
    done = 0
    for b in cands:
        # only the function with the scan shape (a loop over the pieces of a split of the reader buffer inside
        # a refill loop) is analysed; other users of slice::split are none of this rule's business
        if scan_shape(prog, b, refills):
            analyse(prog, R, b, refills)
            done += 1
    if not done:
        for r in ('SCAN-1', 'SCAN-2', 'SCAN-3'):
            R.anchor_missing(r, 'fasta::Reader function that scans the pieces of buffer.split(LF) inside a refill loop')
        return
    R.floor('SCAN-1', 2)
    R.floor('SCAN-2', 3)
    R.floor('SCAN-3', 4)


def refill_names(prog):
    from rules_err import refill_fn
    from rules_err import refill_family
    return set(x.key for x in refill_family(prog))


def scan_shape(prog, b, refills):
    loops = b.cfg.natural_loops()
    nexts = [x for x, t in b.calls() if t.callee and t.callee.is_('std::iter::Iterator::next') and 'Split' in (t.callee.resolved or '')]
    if len(nexts) != 1:
        return False
    inner = [h for h, blks in loops.items() if nexts[0] in blks]
    if not inner:
        return False
    h_in = min(inner, key=lambda h: len(loops[h]))
    outer = [h for h, blks in loops.items() if h != h_in and h_in in blks]
    fills = [x for x, t in b.calls() if prog.local_callee_body(t.callee) is not None and prog.local_callee_body(t.callee).key in refills]
    return bool(outer) and any(any(x in loops[h] for x in fills) for h in outer)


def analyse(prog, R, b, refills):
    du = DefUse(b)
    cfg = b.cfg
    loops = cfg.natural_loops()
    nexts = [x for x, t in b.calls() if t.callee and t.callee.is_('std::iter::Iterator::next') and 'Split' in (t.callee.resolved or '')]
    splits = [(x, t) for x, t in b.calls() if t.callee and t.callee.is_('core::slice::split')]
    where = site(b, b.span['lo'])
    if len(nexts) != 1 or len(splits) != 1:
        R.anchor_missing('SCAN-1', '%s: exactly one split and one iteration over it' % b.path)
        return
    nb = nexts[0]
    inner = [h for h, blks in loops.items() if nb in blks]
    if not inner:
        R.anchor_missing('SCAN-1', '%s: loop over the split pieces' % b.path)
        return
    h_in = min(inner, key=lambda h: len(loops[h]))
    outer = [h for h, blks in loops.items() if h != h_in and h_in in blks]
    if not outer:
        R.anchor_missing('SCAN-3', '%s: refill loop around the scan' % b.path)
        return
    h_out = min(outer, key=lambda h: len(loops[h]))
    # the split is over the reader buffer
    sx, st = splits[0]
    rs = roots_of(b, st.args[0], du, through_calls=identity_through)
    if not (rs and all(q[0] == 'call' and is_buffer_call(prog, q[1].callee) for q in rs)):
        R.anchor_missing('SCAN-1', '%s: the split is over the reader buffer' % b.path)
        return
    # (small single-path helpers are evaluated in place: `shift_buf(reader, n)` = consume(n) + make_room())
    ev = Sym(prog, b, alters_buffer=[k.split('::')[-1] for k in refills], inline=True)
    init = Path()
    init.env[1] = Aff.sym(('self',))
    # entry values: from the outer header to the first arrival at the inner header
    ent = [p for p in ev.run(h_out, stops={h_in}, init=init) if p.end == ('stop', h_in)]
    if not ent:
        R.anchor_missing('SCAN-3', '%s: path from the refill to the scan' % b.path)
        return
    init_in = init.fork()
    init_in.env['#buf'] = ent[0].env.get('#buf', 0)   # the scan works on the buffer content it was entered with
    # ---- one iteration of the inner loop, from its header
    paths = ev.run(h_in, stops={h_in, h_out}, init=init_in)
    back = [p for p in paths if p.end == ('stop', h_in)]
    rets = [p for p in paths if p.end[0] == 'return']
    exh = [p for p in paths if p.end == ('stop', h_out)]
    if not back or not rets or not exh:
        R.anchor_missing('SCAN-1', '%s: iteration / hit / exhausted paths of the scan (found %d/%d/%d)' % (b.path, len(back), len(rets), len(exh)))
        return
    # the current piece = Some payload of next()
    cur = ('f', ('call', 'std::iter::Iterator::next', nb), 'Some', '0')
    LEN = Aff.sym(('len', cur))
    # ---- roles from the hit path: Ok(Some((lines, offset, byte)))
    hits = []
    for p in rets:
        v = p.env.get(0)
        while isinstance(v, Agg) and v.kind != 'tuple' and len(v.fields) == 1:
            v = v.fields[0]
        if isinstance(v, Agg) and v.kind == 'tuple' and len(v.fields) == 3:
            hits.append((p, v))
    if not hits:
        R.anchor_missing('SCAN-2', '%s: the hit returns a (lines, offset, byte) tuple' % b.path)
        return

    def hsym(a):
        hs = [s for s in a.syms() if isinstance(s, tuple) and s[0] == 'H'] if isinstance(a, Aff) else []
        return hs[0][1] if len(hs) == 1 else None
    p0, t0 = hits[0]
    v_line, v_off = hsym(t0.fields[0]), hsym(t0.fields[1])
    if v_line is None or v_off is None or v_line == v_off:
        R.add('SCAN-2', b, 'hit-reports-the-scan-counters', False, where, 'the reported line / offset are not derived from the loop-carried counters: %r' % (t0,))
        return
    nm = lambda l: b.names.get(l, '_%d' % l)
    # ---- SCAN-1 recurrences
    r_off = recurrence(back, v_off)
    r_line = recurrence(back, v_line)
    R.add('SCAN-1', b, 'offset-advances-by-len+1', r_off == ('inc', LEN + Aff.const(1)), where,
          'recurrence of `%s` over one piece: %r (required: + len(piece) + 1)' % (nm(v_off), r_off))
    R.add('SCAN-1', b, 'line-counter-advances-by-1', r_line == ('inc', Aff.const(1)), where,
          'recurrence of `%s` over one piece: %r (required: + 1)' % (nm(v_line), r_line))
    # ---- SCAN-2 hit
    for p, t in hits:
        R.add('SCAN-2', b, 'hit-line-includes-current-piece', t.fields[0] == Aff.sym(('H', v_line)) + Aff.const(1), where,
              'line reported at a hit = %r (required: lines counted before + 1)' % (t.fields[0],))
        R.add('SCAN-2', b, 'hit-offset-is-start-of-current-piece', t.fields[1] == Aff.sym(('H', v_off)), where,
              'offset reported at a hit = %r (required: the offset accumulated over the previous pieces)' % (t.fields[1],))
        okb = t.fields[2] == Aff.sym(('idx', cur, repr(Aff.const(0))))
        # obtained by an accessor (`trim_cr(line).first()`, `line.get(0)`): which byte that is depends on the accessor chain - not judged
        via_call = (not okb) and isinstance(t.fields[2], Aff) and any(isinstance(sy, tuple) and (sy[0] == 'call' or (sy[0] == 'f' and isinstance(sy[1], tuple) and sy[1][:1] == ('call',)))
                                                                       for sy in t.fields[2].syms())
        R.add('SCAN-2', b, 'hit-byte-is-first-byte-of-current-piece', okb, where,
              'byte reported at a hit = %r (required: piece[0])' % (t.fields[2],), undecided=via_call)
    # ---- closed forms at exhaustion
    SUM, K, LAST = Aff.sym(('SUMLEN',)), Aff.sym(('K',)), ('LENLAST',)
    carried = set()
    for p in back:
        carried |= set(l for l, v in p.env.items() if isinstance(l, int) and v != Aff.sym(('H', l)))
    closed = {}
    bad_rec = []
    for l in sorted(carried):
        r = recurrence(back, l)
        e = ent[0].env.get(l, Aff.sym(('H', l)))
        if l == '#buf':
            continue
        if any(q.env.get(l, Aff.sym(('H', l))) != e for q in ent):
            closed[l] = None
            continue
        if r[0] == 'inc' and isinstance(e, Aff):
            d = r[1]
            a = d.t.get(('len', cur), 0)
            rest = d - LEN.scale(a)
            if rest.is_const():
                closed[l] = e + SUM.scale(a) + K.scale(rest.c)
            else:
                closed[l] = None
        elif r[0] == 'latest':
            closed[l] = r[1].subst(lambda s: Aff.sym(LAST) if s == ('len', cur) else None)
            if any(s == cur or (isinstance(s, tuple) and cur in s) for s in closed[l].syms() if s != LAST):
                closed[l] = None
        elif r[0] == 'same':
            closed[l] = e
        else:
            closed[l] = None

    buf_sym = None
    bv = [a for (x, t, a) in ent[0].effects if x == sx]
    if bv and isinstance(bv[0][0], Aff):
        buf_sym = bv[0][0].single()
    BUFLEN = SUM + K - Aff.const(1)

    def close(a):
        if not isinstance(a, Aff):
            return a
        unknown = []

        def f(s):
            if isinstance(s, tuple) and s[0] == 'H' and s[1] in closed:
                if closed[s[1]] is None:
                    unknown.append(s[1])
                    return None
                return closed[s[1]]
            if buf_sym is not None and s == ('len', buf_sym):
                return BUFLEN
            return None
        r = a.subst(f)
        return r

    expected = BUFLEN - Aff.sym(LAST)
    n = 0
    for p in exh:
        n += 1
        cons = [(x, t, a) for (x, t, a) in p.effects if t.callee and t.callee.is_('std::io::BufRead::consume')]
        room = [(x, t, a) for (x, t, a) in p.effects if t.callee and t.callee.is_('buffer_redux::BufReader::make_room')]
        amt = close(cons[0][2][1]) if len(cons) == 1 and len(cons[0][2]) == 2 else None
        def unresolved(a):
            return a is None or (isinstance(a, Aff) and any(isinstance(sy, tuple) and sy[0] == 'H' and sy[1] != v_line for sy in a.syms()))
        R.add('SCAN-3', b, 'consumed=buffer-minus-unterminated-tail#%d' % n, amt is not None and amt == expected, where, undecided=unresolved(amt), detail=
              'amount consumed when all K pieces are blank = %r (required: %r, i.e. the buffer length SUMLEN+K-1 minus the last piece)' % (amt, expected))
        # compaction after the consume, before the refill
        order_ok = bool(cons) and bool(room) and p.effects.index(room[0]) > p.effects.index(cons[0])
        R.add('SCAN-3', b, 'compacted-before-refill#%d' % n, order_ok, where, 'consume is followed by make_room before the next fill: %s' % order_ok)
        # file offset of the buffer start
        posw = [(x, loc, v) for (x, loc, v) in p.writes if isinstance(loc, tuple) and loc[0] == 'f' and loc[-1] == 'byte' and isinstance(loc[1], tuple) and loc[1][-1] == 'position']
        inc = None
        if len(posw) == 1 and isinstance(posw[0][2], Aff):
            inc = close(posw[0][2] - Aff.sym(posw[0][1]))
        R.add('SCAN-3', b, 'file-offset-advances-by-consumed#%d' % n, inc is not None and amt is not None and inc == amt, where,
              'position.byte grows by %r while %r bytes are consumed' % (inc, amt))
        # line counter
        lv = close(p.env.get(v_line, Aff.sym(('H', v_line))))
        want = Aff.sym(('H', v_line)) + K - Aff.const(1)
        R.add('SCAN-3', b, 'last-piece-uncounted-exactly-once#%d' % n, lv == want, where,
              'line counter after a blank buffer of K pieces = %r (required: %r: the K-1 complete lines; the last piece is scanned again after the refill)' % (lv, want))
