#!/usr/bin/env python3
"""debug helper: pretty-print bodies.  usage: show.py facts.json <substring> [...]"""
import sys
sys.path.insert(0, __file__.rsplit('/', 1)[0])
from mir import Program
p = Program.load(sys.argv[1])
for pat in sys.argv[2:]:
    for b in p.bodies.values():
        if pat in b.path or pat in b.key:
            print(b.pretty())
            for pb in b.promoted:
                print(pb.pretty())
            print()
