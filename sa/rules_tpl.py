"""E6 — TPL: write-effect templates (DESIGN appendix A.6) — properties C10, C11.

For each writer entry point the interprocedural sequence of io::Write::write_all arguments on
the successful paths is computed: constants are concatenated, argument slices become named
holes, branches alternatives, loops a star over the alternatives of one iteration followed by
the effects of the leaving iteration.  Crate-internal callees that receive the writer are
inlined, so helper extraction/inlining and splitting/merging of constant writes do not matter.
"""
import re
from flow import *
from mir import data_deps, roots_of, DefUse, Place, Operand
from rules_err import is_derive
from rules_par import find_call, iter_identity

WRITE_OK = ('std::io::Write::write_all',)
WRITE_NOOP = ('std::io::Write::flush', 'std::io::Write::by_ref')


class Tpl:
    """template = tuple of items: ('c', bytes) | ('h', name) | ('star', frozenset(templates)) | ('unk', what)"""

    @staticmethod
    def norm(items):
        out = []
        for it in items:
            if it[0] == 'c' and out and out[-1][0] == 'c':
                out[-1] = ('c', out[-1][1] + it[1])
            elif it[0] == 'c' and it[1] == b'':
                continue
            elif it[0] == 'star':
                alts = frozenset(Tpl.norm(a) for a in it[1])
                alts = frozenset(a for a in alts if a)
                if alts:
                    out.append(('star', alts))
            else:
                out.append(it)
        return tuple(out)

    @staticmethod
    def show(items):
        parts = []
        for it in items:
            if it[0] == 'c':
                parts.append(fmt_bytes(it[1]))
            elif it[0] == 'h':
                parts.append('{%s}' % it[1])
            elif it[0] == 'star':
                parts.append('(' + ' | '.join(sorted(Tpl.show(a) for a in it[1])) + ')*')
            else:
                parts.append('<?%s>' % it[1])
        return ' '.join(parts)


def slice_through(callee):
    if callee is None:
        return None
    if callee.path in ('std::ops::Index::index', 'std::ops::IndexMut::index_mut') or callee.path in IDENTITY_CALLS:
        return 0
    return None


class Engine:
    def __init__(self, prog):
        self.prog = prog
        self.memo = {}
        self.du = {}
        self.stack = []
        self.arrays = {}      # '@arrN' -> items of an array literal of pieces bound to a helper's parameter

    def du_of(self, b):
        if b.path not in self.du:
            self.du[b.path] = DefUse(b)
        return self.du[b.path]

    # ---- does a body (transitively) write to a writer?
    def writes(self, b, seen=None):
        seen = seen or set()
        if b.path in seen:
            return False
        seen.add(b.path)
        for _, t in b.calls():
            if t.callee and t.callee.path.startswith('std::io::Write::'):
                return True
            cb = self.prog.local_callee_body(t.callee)
            if cb is not None and self.writes(cb, seen):
                return True
        for cl in self.prog.closures_of(b):
            if self.writes(cl, seen):
                return True      # the writing happens in a closure (`try_for_each(|p| w.write_all(p))`)
        return False

    # ---- naming of a written value
    def describe(self, b, op, binding, depth=0, active=None):
        """hole name of operand `op` in body b.  binding: param index -> name given by the caller.
        Loop-carried values (chunk = rest) are cyclic; cycles are cut and the name is the set of
        acyclic sources with part()-wrappers removed."""
        active = active or frozenset()
        key = ('op', op.pretty()) if isinstance(op, Operand) else ('pl', op.key())
        if key in active or depth > 8:
            return None
        active = active | {key}
        du = self.du_of(b)
        names = set()
        for r in roots_of(b, op, du, through_calls=slice_through):
            k = r[0]
            if k == 'const':
                bs = r[1].const_bytes()
                names.add(('c', bs) if bs is not None else ('n', 'const?'))
            elif k == 'arg':
                fields = [q[1] for q in r[-1] if q[1] != '[]']
                base = binding.get(r[1], 'p%d' % r[1])
                if isinstance(base, str) and base.startswith('@lit:') and not fields:
                    names.add(('c', bytes.fromhex(base[5:])))       # a literal handed in by the caller
                else:
                    names.add(('n', base + ''.join('.' + f for f in fields)))
            elif k == 'call':
                t = r[1]
                c = t.callee
                if c is None:
                    names.add(('n', 'call?'))
                elif c.path == 'std::iter::Iterator::next':
                    src = self.iter_source(b, t.args[0], binding, depth + 1, active)
                    names.add(('n', 'item(%s)' % src))
                elif c.name == 'split_at' and c.path.endswith('slice::split_at'):
                    inner = self.describe(b, t.args[0], binding, depth + 1, active)
                    if inner is not None:
                        names.add(('n', inner if isinstance(inner, str) else repr(inner[1])))
                elif self.prog.local_callee_body(c) is not None or c.trait is not None:
                    recv = ''
                    if t.args:
                        recv = self.describe(b, t.args[0], binding, depth + 1, active)
                        recv = recv if isinstance(recv, str) else (repr(recv[1]) if recv else '')
                    names.add(('n', '%s(%s)' % (c.name, recv)))
                else:
                    names.add(('n', '%s(..)' % c.name))
            elif k == 'agg':
                names.add(('n', 'agg'))
            else:
                names.add(('n', k))
        if not names:
            return None
        consts = [n for n in names if n[0] == 'c']
        if len(names) == 1 and consts:
            return consts[0]
        flat = set()
        for n in names:
            if n[0] == 'n':
                for part in n[1].split('|'):
                    flat.add(part)
            else:
                flat.add(repr(n[1]))
        return '|'.join(sorted(flat))

    def iter_source(self, b, op, binding, depth, active=None):
        du = self.du_of(b)
        out = set()

        def ident(c):
            if c is None:
                return None
            if c.path in ('std::ops::Deref::deref', 'std::ops::DerefMut::deref_mut'):
                return 0
            if c.path == 'std::iter::IntoIterator::into_iter' and (c.resolved is None or c.resolved == '<I as std::iter::IntoIterator>::into_iter'):
                return 0
            return None
        for r in roots_of(b, op, du, through_calls=ident):
            if r[0] == 'arg':
                out.add(binding.get(r[1], 'p%d' % r[1]))
            elif r[0] == 'call':
                t = r[1]
                c = t.callee
                if c and t.args:
                    inner = self.describe(b, t.args[0], binding, depth + 1, active)
                    inner = inner if isinstance(inner, str) else (repr(inner[1]) if inner else '')
                    out.add('%s(%s)' % (c.name, inner))
                else:
                    out.add('call')
            else:
                out.add(r[0])
        return '|'.join(sorted(out))

    def array_source(self, b, L):
        """operands of the array literal a loop iterates over (`for x in [a, b, c]` / `.iter()` of it), else None"""
        du = self.du_of(b)

        def ident(c):
            if c is None:
                return None
            if c.path in ('std::ops::Deref::deref', 'std::ops::DerefMut::deref_mut', 'core::slice::iter', 'std::iter::IntoIterator::into_iter', 'core::array::iter'):
                return 0
            return None
        for x in L:
            t = b.blocks[x].term
            if t.k == 'call' and t.callee and t.callee.path == 'std::iter::Iterator::next':
                rs = roots_of(b, t.args[0], du, through_calls=ident)
                if len(rs) == 1 and rs[0][0] == 'agg' and rs[0][1].rv.j.get('agg') == 'array' and not [q for q in rs[0][-1] if q[1] != '[]']:
                    return list(rs[0][1].rv.ops)
        return None

    def live_arms(self, b, t, tags):
        """targets of a switch on the discriminant of an Option parameter whose tag the caller fixed"""
        if t.discr.is_const:
            return None
        for r in roots_of(b, t.discr, self.du_of(b)):
            if r[0] == 'discr':
                pl = r[1].rv.place
                rr = roots_of(b, pl, self.du_of(b))
                if len(rr) == 1 and rr[0][0] == 'arg' and not rr[0][-1] and rr[0][1] in tags:
                    want = {'None': 0, 'Some': 1}[tags[rr[0][1]]]
                    return set(tg for v, tg in t.targets if v == want) or {t.otherwise}
        return None

    # ---- effects of one block
    def block_effects(self, b, blk, binding, writer_params):
        """list of alternatives, each a tuple of template items; None = not a writer-related block"""
        t = b.blocks[blk].term
        if t.k != 'call' or t.callee is None:
            return [()]
        c = t.callee
        if c.path in WRITE_OK:
            d = self.describe(b, t.args[1], binding)
            if isinstance(d, tuple) and d[0] == 'c':
                return [(('c', d[1]),)]
            return [(('h', d if d is not None else '?'),)]
        if c.path in WRITE_NOOP:
            return [()]
        if c.name in ('try_for_each', 'for_each') and 'iter' in c.path.lower() and len(t.args) == 2:
            # `pieces.try_for_each(|p| writer.write_all(p))`: a loop written as an adaptor; its body is the closure
            from rules_par import closure_of_arg
            ccb = closure_of_arg(self.prog, b, t, 1)
            if ccb is not None and self.writes(ccb):
                src = self.iter_source(b, t.args[0], binding, 1)
                inner = self.templates(ccb, {2: 'item(%s)' % src})
                m_ = re.search(r'@arr\d+', src or '')
                if m_ and m_.group(0) in self.arrays and len(inner) == 1 and not any(w_ in src for w_ in ('flatten', 'filter', 'skip', 'take', 'rev')):
                    seq = ()
                    for item in self.arrays[m_.group(0)]:
                        seq += tuple(item if (it[0] == 'h' and str(it[1]).startswith('item(')) else it for it in inner[0])
                    return [seq]
                return [(('star', frozenset(Tpl.norm(i) for i in inner)),)]
        if c.path.startswith('std::io::Write::'):
            return [(('unk', c.path),)]
        cb = self.prog.local_callee_body(c)
        if cb is not None and self.writes(cb):
            nb = {}
            tags = {}
            for i, a in enumerate(t.args):
                d = self.describe(b, a, binding)
                nb[i + 1] = d if isinstance(d, str) else (('@lit:' + d[1].hex()) if d else '?')
                # an array literal of pieces handed to a helper that writes them one by one (`write_pieces(w, &[b">", head, b"\n"])`)
                ars = roots_of(b, a, self.du_of(b), through_calls=lambda c_: 0 if c_ and c_.path in ('std::ops::Deref::deref', 'core::slice::iter', 'core::array::iter', 'std::convert::AsRef::as_ref') else None)
                if len(ars) == 1 and ars[0][0] == 'agg' and ars[0][1].rv.j.get('agg') == 'array' and not [q for q in ars[0][-1] if q[1] != '[]']:
                    items = []
                    for opk in ars[0][1].rv.ops:
                        dd = self.describe(b, opk, binding)
                        items.append(('c', dd[1]) if isinstance(dd, tuple) and dd[0] == 'c' else ('h', dd if dd is not None else '?'))
                    nm = '@arr%d' % len(self.arrays)
                    self.arrays[nm] = items
                    nb[i + 1] = nm
                # a literal None / Some(..) argument: the callee's match on it has one live arm
                rs = roots_of(b, a, self.du_of(b))
                vs = set(r[1].rv.j.get('variant') if (r[0] == 'agg' and r[1].rv.j.get('adt', '').endswith('option::Option') and not r[-1]) else '?' for r in rs)
                if len(vs) == 1 and vs <= {'None', 'Some'}:
                    tags[i + 1] = vs.pop()
                elif a.is_const and (a.j.get('s') or '').endswith('None'):
                    tags[i + 1] = 'None'
            return self.templates(cb, nb, tags)
        if cb is None and c.trait is not None and c.name in ('write', 'write_wrap', 'write_unchanged'):
            return [(('unk', 'unresolved %s' % c.path),)]
        return [()]

    # ---- templates of a body
    def templates(self, b, binding, tags=None):
        tags = tags or {}
        key = (b.path, tuple(sorted(binding.items())), tuple(sorted(tags.items())))
        if key in self.memo:
            return self.memo[key]
        if b.path in self.stack:
            return [(('unk', 'recursion'),)]
        self.stack.append(b.path)
        cfg = b.cfg
        loops = cfg.natural_loops()
        wp = None

        def eff(x):
            return self.block_effects(b, x, binding, wp)

        def is_err_exit(x):
            t = b.blocks[x].term
            return t.k == 'call' and t.callee and t.callee.path == 'std::ops::FromResidual::from_residual' and t.dest.local == 0

        budget = [20000]

        def walk(x, region, header, want, onpath):
            """paths starting at block x (inclusive).
            want == 'ret' : yield templates of paths reaching a normal return
            want == 'iter': yield templates of paths coming back to `header`
            want == 'exit': yield (template, outside block) for paths leaving `region`"""
            budget[0] -= 1
            if budget[0] < 0:
                return [(('unk', 'path budget exceeded'),)] if want != 'exit' else []
            res = []
            if x in onpath:
                return res
            if is_err_exit(x):
                return res
            t = b.blocks[x].term
            if t.k == 'return':
                if want == 'ret':
                    return [()]
                return res
            # nested loop?
            if x in loops and x != header and (region is None or loops[x] <= region or True) and x not in onpath:
                L = loops[x]
                iters = []
                for e in eff(x):
                    for s in cfg.succ[x]:
                        if s in L:
                            for p in walk(s, L, x, 'iter', onpath | {x}):
                                iters.append(tuple(e) + tuple(p))
                star = ('star', frozenset(Tpl.norm(i) for i in iters))
                starseq = (star,)
                arr = self.array_source(b, L)
                if arr is None and len(set(iters)) == 1:
                    # the same for an array literal that the caller handed in
                    for x_ in L:
                        t_ = b.blocks[x_].term
                        if t_.k == 'call' and t_.callee and t_.callee.path == 'std::iter::Iterator::next':
                            src_ = self.iter_source(b, t_.args[0], binding, 1)
                            m_ = re.search(r'@arr\d+', src_ or '')
                            if m_ and m_.group(0) in self.arrays and 'flatten' not in src_ and 'filter' not in src_ and 'skip' not in src_ and 'take' not in src_ and 'rev' not in src_:
                                seq = ()
                                for item in self.arrays[m_.group(0)]:
                                    seq += tuple(item if (it[0] == 'h' and str(it[1]).startswith('item(')) else it for it in iters[0])
                                starseq = seq
                if arr is not None and len(set(iters)) == 1:
                    # a loop over an array literal `for part in [a, b"..", c]`: unrolled, one iteration per element
                    seq = ()
                    for opk in arr:
                        d = self.describe(b, opk, binding)
                        item = ('c', d[1]) if isinstance(d, tuple) and d[0] == 'c' else ('h', d if d is not None else '?')
                        seq += tuple(item if (it[0] == 'h' and str(it[1]).startswith('item(')) else it for it in iters[0])
                    starseq = seq
                # leaving iteration
                leaving = []
                for e in eff(x):
                    for s in cfg.succ[x]:
                        if s in L:
                            for (p, out) in walk(s, L, x, 'exit', onpath | {x}):
                                leaving.append((tuple(e) + tuple(p), out))
                        else:
                            leaving.append((tuple(e), s))
                for (p, out) in leaving:
                    if region is not None and out not in region:
                        if want == 'exit':
                            res.append((starseq + p, out))
                        continue
                    if out == header:
                        if want == 'iter':
                            res.append(starseq + p)
                        continue
                    for q in walk(out, region, header, want, onpath | {x}):
                        if want == 'exit':
                            res.append((starseq + p + q[0], q[1]))
                        else:
                            res.append(starseq + p + tuple(q))
                return res
            for e in eff(x):
                succs = cfg.succ[x]
                if t.k == 'switch' and tags:
                    live = self.live_arms(b, t, tags)
                    if live is not None:
                        succs = [s_ for s_ in succs if s_ in live]
                if not succs and want == 'ret' and t.k == 'call' and t.target is None:
                    continue   # diverging call (panic)
                for s in succs:
                    if s == header:
                        if want == 'iter':
                            res.append(tuple(e))
                        continue
                    if region is not None and s not in region:
                        if want == 'exit':
                            res.append((tuple(e), s))
                        continue
                    for q in walk(s, region, header, want, onpath | {x}):
                        if want == 'exit':
                            res.append((tuple(e) + q[0], q[1]))
                        else:
                            res.append(tuple(e) + tuple(q))
            return res

        alts = walk(0, None, None, 'ret', frozenset())
        out = sorted(set(Tpl.norm(a) for a in alts), key=Tpl.show)
        self.stack.pop()
        self.memo[key] = out
        return out


def fmt_bytes(bs):
    esc = {10: '\\n', 13: '\\r', 9: '\\t', 34: '\\"', 92: '\\\\'}
    return '"' + ''.join(esc.get(c, chr(c) if 32 <= c < 127 else '\\x%02x' % c) for c in bs) + '"'


def strip_part(s):
    while True:
        m = re.match(r'^part\((.*)\)$', s)
        if not m:
            return s
        s = m.group(1)


def param_names(b):
    return {i: b.names.get(i, 'p%d' % i) for i in range(1, b.arg_count + 1)}


# expected templates: written from the format definition in the property statements, with the
# parameters of the public entry points named by position.
def expected():
    E = {}
    fa = {}
    fa['fasta::write_head'] = ['">" {head} "\\n"']
    fa['fasta::write_id_desc'] = ['">" {id} "\\n"', '">" {id} " " {desc.0} "\\n"']
    fa['fasta::write_seq'] = ['{seq} "\\n"']
    fa['fasta::write_to'] = ['">" {head} "\\n" {seq} "\\n"']
    fa['fasta::write_parts'] = ['">" {id} "\\n" {seq} "\\n"', '">" {id} " " {desc.0} "\\n" {seq} "\\n"']
    fa['fasta::write_wrap_seq'] = ['({item(chunks(seq))} "\\n")*']
    fa['fasta::write_wrap'] = ['">" {id} "\\n" ({item(chunks(seq))} "\\n")*', '">" {id} " " {desc.0} "\\n" ({item(chunks(seq))} "\\n")*']
    fa['fasta::write_seq_iter'] = ['({item(seq)})* "\\n"']
    fa['fasta::write_wrap_seq_iter'] = ['(({item(seq)} "\\n")* {item(seq)})* "\\n"']
    fa['<fasta::RefRecord as fasta::Record>::write'] = ['">" {head(self)} "\\n" ({item(seq_lines(self))})* "\\n"']
    fa['<fasta::RefRecord as fasta::Record>::write_wrap'] = ['">" {head(self)} "\\n" (({item(seq_lines(self))} "\\n")* {item(seq_lines(self))})* "\\n"']
    fa['<fasta::OwnedRecord as fasta::Record>::write'] = ['">" {self.head} "\\n" {self.seq} "\\n"']
    fa['<fasta::OwnedRecord as fasta::Record>::write_wrap'] = ['">" {self.head} "\\n" ({item(chunks(self.seq))} "\\n")*']
    fq = {}
    fq['fastq::write_to'] = ['"@" {head} "\\n" {seq} "\\n+\\n" {qual} "\\n"']
    fq['fastq::write_parts'] = ['"@" {id} "\\n" {seq} "\\n+\\n" {qual} "\\n"', '"@" {id} " " {desc.0} "\\n" {seq} "\\n+\\n" {qual} "\\n"']
    fq['fastq::Record::write'] = ['"@" {head(self)} "\\n" {seq(self)} "\\n+\\n" {qual(self)} "\\n"']
    E.update(fa)
    E.update(fq)
    return E


def canon(s):
    return re.sub(r'\s+', ' ', s.strip())


def run(prog, R):
    R.rule('TPL-1', 'the sequence of bytes written by each writer entry point matches the format template (header marker, fields in their slots, separators, terminators; wrapped output consists of pieces of the sequence and LF only)')
    R.rule('TPL-2', 'Record::write passes head(), seq(), qual() of the same record into the slots of the same name')
    R.rule('TPL-3', 'the wrap width given to an entry point is the width used by the chunking / line-budget code')
    R.rule('TPL-4', 'write_unchanged writes one slice of the record buffer from the record start to the end of its last line, then a terminator (FASTA: only if the slice does not already end with LF)')
    eng = Engine(prog)
    E = expected()
    for key, want in sorted(E.items()):
        try:
            b = prog.get(key)
        except KeyError:
            R.anchor_missing('TPL-1', key)
            continue
        binding = param_names(b)
        got = [canon(Tpl.show(t)) for t in eng.templates(b, binding)]
        w = sorted(canon(x) for x in want)
        # name normalisation: the iterator variants name their sequence source by parameter name
        ng = sorted(normalise_names(g) for g in got)
        nw = sorted(normalise_names(x) for x in w)
        ok = ng == nw
        how_ok = ''
        if not ok and ng and not any('<?' in g for g in ng) and lang_equal(ng, nw):
            # written in another arrangement of loops and pieces, but the same set of byte / value sequences
            ok = True
            how_ok = '   (same language as the expected template)'
        # a verdict needs a template in the vocabulary of the format definition: holes the definition does not
        # know (an iteration idiom the engine cannot name, an unresolved write) mean "not judged", not "wrong"
        vocab = set(re.findall(r'\{([^{}]*)\}', ' '.join(nw)))
        holes = set(re.findall(r'\{([^{}]*)\}', ' '.join(ng)))
        foreign = sorted(h for h in holes if h not in vocab) + (['<?>'] if any('<?' in g for g in ng) else [])
        if any('<?std::io::Write::' in g for g in ng):
            foreign = []      # a Write method other than write_all (write, write_vectored: partial writes): recognised, and wrong
        # writes made by closures handed to a generic helper (`write_record(writer, |w| .., |w| ..)` calling `head(&mut writer)`):
        # the engine does not follow calls of function parameters
        if not ok and not foreign:
            seen_b = set()
            work_b = [b]
            indirect = False
            while work_b and len(seen_b) < 12:
                q = work_b.pop()
                if q.path in seen_b:
                    continue
                seen_b.add(q.path)
                for _, t_ in q.calls():
                    if t_.callee is None or t_.callee.path in ('std::ops::FnOnce::call_once', 'std::ops::FnMut::call_mut', 'std::ops::Fn::call'):
                        indirect = True
                    cb_ = prog.local_callee_body(t_.callee) if t_.callee else None
                    if cb_ is not None:
                        work_b.append(cb_)
            if indirect and len(' '.join(ng)) < len(' '.join(nw)):
                foreign = ['<a call of a function parameter>']
        rid = 'TPL-2' if key == 'fastq::Record::write' else 'TPL-1'
        R.add(rid, b, 'template', ok, site(b, b.span['lo']), 'writes  %s   expected  %s%s' % ('  ||  '.join(got), '  ||  '.join(w),
              (('   (not judged: the written values %s are outside the vocabulary of the format template)' % foreign) if (foreign and not ok) else '') + how_ok),
              undecided=(not ok) and bool(foreign))
    R.floor('TPL-1', 15)
    # ---- TPL-3
    tpl3(prog, R)
    # ---- TPL-4
    tpl4(prog, R)
    R.rule('TPL-5', 'the optional description (and its separating space) is written exactly when the desc argument is Some')
    tpl5(prog, R)


# ---- templates as regular languages: two writers are the same when they can emit the same sequences of
# (byte | value-hole) symbols, however the loops are arranged:  seq ("\n" seq)* "\n"  =  (seq "\n")+
def _tpl_tokens(s):
    out = []
    i = 0
    while i < len(s):
        ch = s[i]
        if ch.isspace():
            i += 1
        elif ch == '"':
            j = i + 1
            lit = []
            while j < len(s) and s[j] != '"':
                if s[j] == '\\' and j + 1 < len(s):
                    if s[j + 1] == 'x' and j + 3 < len(s):
                        lit.append('\\' + s[j + 1:j + 4])
                        j += 4
                    else:
                        lit.append(s[j:j + 2])
                        j += 2
                else:
                    lit.append(s[j])
                    j += 1
            out += [('sym', 'b:' + c) for c in lit]
            i = j + 1
        elif ch == '{':
            j = s.index('}', i)
            out.append(('sym', 'h:' + s[i + 1:j].strip()))
            i = j + 1
        elif s.startswith(')*', i):
            out.append((')*',))
            i += 2
        elif ch in '()|':
            out.append((ch,))
            i += 1
        elif ch == '<':
            j = s.index('>', i)
            out.append(('sym', 'u:' + s[i:j + 1]))
            i = j + 1
        else:
            raise ValueError('template syntax: %r at %d' % (s, i))
    return out


def _tpl_nfa(alts):
    """Thompson construction for a list of alternative template strings -> (start, accept, eps, delta)"""
    eps = {}
    delta = {}
    cnt = [0]

    def new():
        cnt[0] += 1
        return cnt[0]

    def add_eps(a, b):
        eps.setdefault(a, set()).add(b)

    def parse_seq(toks, i):
        # sequence until '|', ')', ')*' or end -> (start, end, i)
        st = new()
        cur = st
        while i < len(toks) and toks[i][0] not in ('|', ')', ')*'):
            t = toks[i]
            if t[0] == 'sym':
                nx = new()
                delta.setdefault((cur, t[1]), set()).add(nx)
                cur = nx
                i += 1
            elif t[0] == '(':
                gs, ge, i = parse_alt(toks, i + 1)
                star = i < len(toks) and toks[i][0] == ')*'
                i += 1
                add_eps(cur, gs)
                nx = new()
                add_eps(ge, nx)
                if star:
                    add_eps(ge, gs)
                    add_eps(cur, nx)
                cur = nx
            else:
                raise ValueError('template syntax')
        return st, cur, i

    def parse_alt(toks, i):
        st, en = new(), new()
        while True:
            a, b_, i = parse_seq(toks, i)
            add_eps(st, a)
            add_eps(b_, en)
            if i < len(toks) and toks[i][0] == '|':
                i += 1
                continue
            return st, en, i
    S, A = new(), new()
    for a in alts:
        toks = _tpl_tokens(a)
        st, en, i = parse_alt(toks, 0)
        if i != len(toks):
            raise ValueError('template syntax')
        add_eps(S, st)
        add_eps(en, A)
    return S, A, eps, delta


def lang_equal(alts1, alts2):
    try:
        n1, n2 = _tpl_nfa(alts1), _tpl_nfa(alts2)
    except (ValueError, IndexError):
        return False

    def closure(n, states):
        S, A, eps, delta = n
        out = set(states)
        work = list(states)
        while work:
            q = work.pop()
            for r in eps.get(q, ()):
                if r not in out:
                    out.add(r)
                    work.append(r)
        return frozenset(out)

    def step(n, states, sym):
        S, A, eps, delta = n
        nx = set()
        for q in states:
            nx |= delta.get((q, sym), set())
        return closure(n, nx)
    alphabet = set(sym for (_, sym) in list(n1[3]) + list(n2[3]))
    start = (closure(n1, {n1[0]}), closure(n2, {n2[0]}))
    seen = {start}
    work = [start]
    while work:
        a, b_ = work.pop()
        if (n1[1] in a) != (n2[1] in b_):
            return False
        for sym in alphabet:
            nx = (step(n1, a, sym), step(n2, b_, sym))
            if nx not in seen:
                if len(seen) > 20000:
                    return False
                seen.add(nx)
                work.append(nx)
    return True


def normalise_names(s):
    s = s.replace('part(', '(')
    # a piece of X, however it was cut (chunks(w), split_at(..) in a loop): the template only fixes the frame around it
    prev = None
    while prev != s:
        prev = s
        s = re.sub(r'item\(chunks\(([^(){}]*)\)\)', r'\1', s)
    return s


def tpl3(prog, R):
    """the wrap width given to an entry point is the width the chunking / line-budget code uses, followed through
    private helpers: a callee parameter called `wrap` receives the caller's width, `chunks(_, w)` / `w - fill` /
    `min(w, ..)` feeding split_at use it.  'unknown' (no recognisable use of a width) gives no verdict."""
    def width(b, pidx, depth=0):
        du = DefUse(b)
        res = []
        for _, t in b.calls():
            c = t.callee
            if c is None:
                continue
            cb = prog.local_callee_body(c)
            if cb is not None:
                wj = [l for l, nm in cb.names.items() if nm == 'wrap' and 1 <= l <= cb.arg_count]
                if wj and wj[0] - 1 < len(t.args) and depth < 4:
                    rs = roots_of(b, t.args[wj[0] - 1], du)
                    if rs and all(r[0] == 'arg' and r[1] == pidx and not r[-1] for r in rs):
                        res.append(width(cb, wj[0], depth + 1))
                    elif any(r[0] == 'arg' and r[1] == pidx for r in rs) or any(d[0] == 'arg' and d[1] == pidx for d in data_deps(b, t.args[wj[0] - 1], du)):
                        res.append(('unknown', ''))    # the width is passed on in another form (e.g. wrapped in Some): not followed
                    else:
                        res.append(('bad', '%s(.., wrap <- %s)' % (cb.key.rsplit('::', 1)[-1], [(r[0], r[1] if r[0] == 'arg' else '') for r in rs])))
                continue
            if c.name in ('chunks', 'rchunks', 'chunks_exact') and len(t.args) == 2:
                rs = roots_of(b, t.args[1], du)
                good = bool(rs) and all(r[0] == 'arg' and r[1] == pidx and not r[-1] for r in rs)
                res.append(('ok' if good else 'bad', '%s(_, %s)' % (c.name, [(r[0], r[1] if r[0] == 'arg' else '') for r in rs])))
            if c.name in ('min',) and len(t.args) == 2:
                if any(all(r[0] == 'arg' and r[1] == pidx and not r[-1] for r in roots_of(b, a, du)) and roots_of(b, a, du) for a in t.args):
                    if any(k == 'call' and tt.callee and tt.callee.name == 'split_at' for (k, tt, i2, via) in forward_sinks(b, t.dest.local)):
                        res.append(('ok', 'min(wrap, ..) feeds split_at'))
        for blk in b.blocks:
            for st in blk.stmts:
                if st.k == 'assign' and st.rv.k == 'bin' and st.rv.j['op'] in ('Sub', 'SubUnchecked'):
                    rs = roots_of(b, st.rv.ops[0], du)
                    if len(rs) == 1 and rs[0][0] == 'arg' and rs[0][1] == pidx and st.place.is_local():
                        if any(k == 'call' and tt.callee and tt.callee.name == 'split_at' for (k, tt, i2, via) in forward_sinks(b, st.place.local)):
                            res.append(('ok', 'remaining = wrap - fill feeds split_at'))
        if any(r[0] == 'bad' for r in res):
            return ('bad', '; '.join(r[1] for r in res if r[0] == 'bad'))
        if any(r[0] == 'ok' for r in res):
            return ('ok', '; '.join(r[1] for r in res if r[0] == 'ok'))
        return ('unknown', 'no use of the width recognised')
    n = 0
    for b in prog.bodies.values():
        if not b.file.endswith('fasta.rs') or b.promoted_of is not None or '{closure' in b.key:
            continue
        wl = [l for l, nm in b.names.items() if nm == 'wrap' and 1 <= l <= b.arg_count]
        if not wl:
            continue
        v, detail = width(b, wl[0])
        n += 1
        R.add('TPL-3', b, 'wrap-reaches-wrapper', v != 'bad', site(b, b.span['lo']), detail, undecided=v == 'unknown')
    R.floor('TPL-3', 5)


def tpl4(prog, R):
    for fmt in ('fasta', 'fastq'):
        try:
            b = prog.get('%s::RefRecord::write_unchanged' % fmt)
        except KeyError:
            R.anchor_missing('TPL-4', '%s::RefRecord::write_unchanged' % fmt)
            continue
        du = DefUse(b)
        writes = [(x, t) for x, t in b.calls() if t.callee and t.callee.path == 'std::io::Write::write_all']
        others = [(x, t) for x, t in b.calls() if t.callee and t.callee.path.startswith('std::io::Write::') and t.callee.path != 'std::io::Write::write_all']
        # first write: a slice of self.buffer[start..end]
        data = [(x, t) for x, t in writes if not (roots_of(b, t.args[1], du) and all(r[0] == 'const' for r in roots_of(b, t.args[1], du)))]
        nl = [(x, t) for x, t in writes if (x, t) not in data]
        ok_shape = len(data) == 1 and len(nl) == 1 and not others
        start_ok = end_ok = False
        desc = ''
        if ok_shape:
            x, t = data[0]
            rs = roots_of(b, t.args[1], du, through_calls=lambda c: 0 if c and c.path in IDENTITY_CALLS else None)
            for r in rs:
                if r[0] == 'call' and r[1].callee.path in ('std::ops::Index::index',):
                    it = r[1]
                    base = roots_of(b, it.args[0], du)
                    base_ok = all(q[0] == 'arg' and q[1] == 1 and [f[1] for f in q[-1]] == ['buffer'] for q in base)
                    rng = roots_of(b, it.args[1], du)
                    if len(rng) == 1 and rng[0][0] == 'agg' and rng[0][1].rv.j.get('adt', '').endswith('ops::Range'):
                        lo, hi = rng[0][1].rv.ops
                        lo_r = roots_of(b, lo, du)
                        hi_r = roots_of(b, hi, du, through_calls=identity_through)
                        if fmt == 'fastq':
                            start_ok = all(q[0] == 'arg' and [f[1] for f in q[-1]] == ['buf_pos', 'pos', '0'] for q in lo_r) and bool(lo_r)
                            end_ok = all(q[0] == 'arg' and [f[1] for f in q[-1]] == ['buf_pos', 'pos', '1'] for q in hi_r) and bool(hi_r)
                        else:
                            start_ok = all(q[0] == 'arg' and [f[1] for f in q[-1]] == ['buf_pos', 'start'] for q in lo_r) and bool(lo_r)
                            end_ok = all(q[0] == 'call' and q[1].callee.name in ('last', 'split_last') for q in hi_r) and bool(hi_r)
                            if end_ok:
                                for q in hi_r:
                                    rr = roots_of(b, q[1].args[0], du, through_calls=identity_through)
                                    end_ok = end_ok and all(z[0] == 'arg' and [f[1] for f in z[-1]] == ['buf_pos', 'seq_pos'] for z in rr)
                        start_ok = start_ok and base_ok
                        desc = 'buffer[%s..%s]' % ([[f[1] for f in q[-1]] for q in lo_r if q[0] == 'arg'], [(q[0], q[1].callee.name if q[0] == 'call' else [f[1] for f in q[-1]]) for q in hi_r])
            # order: data write dominates the terminator write
            order = b.cfg.dominates(data[0][0], nl[0][0])
            c = resolve_const_operand(b, nl[0][1].args[1], du)
            nl_ok = c == ('bytes', b'\n')
            cond_ok = True
            if fmt == 'fastq':
                # unconditional terminator
                cond_ok = b.cfg.postdominates(nl[0][0], data[0][0]) or all(nl[0][0] in b.cfg.reach_from(data[0][0]) for _ in [0])
                cond_ok = nl_ok and order and is_unconditional_after(b, data[0][0], nl[0][0])
            else:
                # conditional on the last byte of the slice != LF
                sw = None
                from rules_view import controlling_switches
                cs = controlling_switches(b, nl[0][0])
                guard = False
                for a in cs:
                    tt = b.blocks[a].term
                    for r in roots_of(b, tt.discr, du):
                        if r[0] == 'bin' and r[1].rv.j['op'] in ('Ne', 'Eq'):
                            cs_ = [o.const_int() for o in r[1].rv.ops]
                            if 10 in cs_:
                                ne_edge = tt.otherwise if r[1].rv.j['op'] == 'Ne' else [tg for v, tg in tt.targets if v == 0][0]
                                if b.cfg.dominates(ne_edge, nl[0][0]):
                                    other = [o for o in r[1].rv.ops if o.const_int() != 10][0]
                                    dd = roots_of(b, other, du, through_calls=identity_through)
                                    guard = any(q[0] == 'call' and q[1].callee.name in ('last', 'split_last') for q in dd)
                if not guard:
                    # `match data.last() { Some(b'\n') => {}, _ => write LF }`: a switch on the last byte itself
                    for a in cs:
                        tt = b.blocks[a].term
                        if tt.k == 'switch' and not tt.discr.is_const and 10 in [v for v, _ in tt.targets]:
                            dd = roots_of(b, tt.discr, du, through_calls=identity_through)
                            if any(q[0] == 'call' and q[1].callee and q[1].callee.name in ('last', 'split_last') for q in dd):
                                lf_arm = [tg for v, tg in tt.targets if v == 10][0]
                                if nl[0][0] not in b.cfg.reach_from(lf_arm, include_start=True):
                                    guard = True
                cond_ok = nl_ok and order and guard
            helper_end = False
            if fmt == 'fasta' and not end_ok:
                try:
                    helper_end = bool(hi_r) and all(q[0] == 'call' and prog.local_callee_body(q[1].callee) is not None for q in hi_r)
                except NameError:
                    helper_end = False
            # the whole piece is handed out by a private function (`self.buf_pos.raw_record(self.buffer)`): its extent is not visible here
            helper_slice = False
            try:
                rs_d = roots_of(b, data[0][1].args[1], du, through_calls=lambda c: 0 if c and c.path in IDENTITY_CALLS else None)
                helper_slice = bool(rs_d) and all(q[0] == 'call' and prog.local_callee_body(q[1].callee) is not None for q in rs_d)
            except Exception:
                pass
            R.add('TPL-4', b, 'extent-and-terminator', start_ok and end_ok and cond_ok, site(b, data[0][1].line), undecided=(start_ok and cond_ok and not end_ok and helper_end) or (helper_slice and cond_ok and not start_ok), detail=
                  ('the record bytes come from a private function (extent not judged here); ' if helper_slice and not start_ok else '') +
                  'writes %s then %s"\\n": start at record start %s, end at last line end %s, terminator rule %s' % (desc, '' if fmt == 'fastq' else 'conditionally ', start_ok, end_ok, cond_ok))
        elif not data and not nl and not others:
            # the writes happen in private helpers: fall back to the interprocedural template of the function
            eng = Engine(prog)
            tps = eng.templates(b, param_names(b))
            shapes = []
            for tp in tps:
                items = list(tp)
                shapes.append(tuple(('c', bytes(i[1])) if i[0] == 'c' else (i[0],) for i in items))
            want = [[(('h',), ('c', b'\n'))], [(('h',),), (('h',), ('c', b'\n'))]][0 if fmt == 'fastq' else 1]
            unk = any(i[0] in ('unk', 'star') for tp in tps for i in tp)
            okt = sorted(shapes) == sorted(want)
            R.add('TPL-4', b, 'extent-and-terminator', okt, site(b, b.span['lo']),
                  'writes through private helpers; template of the function: %s (required: one slice of the buffer, then LF%s); the extent of the slice is not visible here and not judged' % (
                      ' || '.join(Tpl.show(t) for t in tps), '' if fmt == 'fastq' else ' unless it ends with one'), undecided=okt or unk)
        else:
            # part of the writing is done by a closure of the function (`write_all(data).and_then(|()| writer.write_all(b"\n"))`)
            in_closures = any(t_.callee and t_.callee.path.startswith('std::io::Write::') for cb_ in prog.closures_of(b) for _, t_ in cb_.calls())
            R.add('TPL-4', b, 'extent-and-terminator', False, site(b, b.span['lo']),
                  'expected one data write_all, one terminator write_all and no other use of the writer; found %d/%d/%d%s' % (
                      len(data), len(nl), len(others), ' (a closure of the function writes too: not judged)' if in_closures else ''), undecided=in_closures and not others)
    R.floor('TPL-4', 2)


def is_unconditional_after(b, a, x):
    """every normal (non-error) path from a to a return passes x"""
    removed = {x}
    reach = b.cfg.reach_from(a, removed=removed)
    for r in reach:
        t = b.blocks[r].term
        if t.k == 'return':
            # is this return reachable only through error exits?
            # error exit blocks assign _0 via from_residual; find whether any path a->r avoids them
            err = set(y for y in b.cfg.reachable if b.blocks[y].term.k == 'call' and b.blocks[y].term.callee and b.blocks[y].term.callee.path == 'std::ops::FromResidual::from_residual')
            reach2 = b.cfg.reach_from(a, removed=removed | err)
            if r in reach2:
                return False
    return True


def tpl5(prog, R):
    """the optional description is written exactly when the `desc` argument is Some: the write of
    the separating space is control dependent only on the discriminant of that parameter (and on
    the error checks of earlier writes)"""
    from rules_view import controlling_switches
    for key in ('fasta::write_id_desc', 'fastq::write_parts'):
        try:
            b = prog.get(key)
        except KeyError:
            R.anchor_missing('TPL-5', key)
            continue
        du = DefUse(b)
        opt_params = [i for i in range(1, b.arg_count + 1) if b.local_tys[i].startswith('std::option::Option<')]
        n = 0
        for x, t in b.calls():
            if not (t.callee and t.callee.path == 'std::io::Write::write_all'):
                continue
            c = resolve_const_operand(b, t.args[1], du)
            if c != ('bytes', b' '):
                continue
            n += 1
            bad = []
            on_param = False
            for a in controlling_switches(b, x):
                tt = b.blocks[a].term
                rs = roots_of(b, tt.discr, du)
                okk = False
                for r in rs:
                    if r[0] == 'discr':
                        pl = r[1].rv.place
                        if pl.local in opt_params and not pl.proj:
                            okk = True
                            on_param = True
                        else:
                            q = roots_of(b, pl, du)
                            if all(z[0] == 'call' and z[1].callee and z[1].callee.path == 'std::ops::Try::branch' for z in q) and q:
                                okk = True
                if not okk:
                    bad.append(tt.line)
            R.add('TPL-5', b, 'description-iff-some', on_param and not bad, site(b, t.line),
                  'the separator/description is written exactly when desc is Some: guarded by the parameter discriminant %s, extra conditions at lines %s' % (on_param, bad))
        if n == 0:
            R.undecided('TPL-5', b, 'description-iff-some', site(b, b.span['lo']), 'no write of the separating space in this function (delegated to a helper): judged by the template rule TPL-1 with the literal None / Some of each caller')
    R.floor('TPL-5', 2)
