"""thorough tier = quick rules + type-level witnesses (E8) relevant to the property + checker
validation (E9): every self-test mutant and every independently seeded change that targets the
property is applied to a scratch copy of the analysed tree and the check must report it; benign
refactoring variants must stay silent.  Only a failing *witness* is a violation of the property
on the analysed tree; a missed mutant is recorded in the evidence as a weakness of the checker."""
import json
import os
import re
import subprocess
import sys
from concurrent.futures import ThreadPoolExecutor

WITNESSES = {
    'C18': ['W1Fasta', 'W1Fastq', 'W2Fasta', 'W2Fastq'], 'C13': ['W1Fasta', 'W1Fastq', 'W2Fasta', 'W2Fastq'],
    'C04': ['W2Fasta', 'W2Fastq'], 'C07': ['W3'], 'C16': ['W3'], 'C08': ['W4'], 'C20': ['W5'], 'C19': ['W5'],
    'C14': ['W5'], 'C09': ['W5'], 'C05': ['W6'],
}


def run(pid, spec, repo, here, seed):
    info = {}
    viol = []
    # ---- witnesses
    ws = WITNESSES.get(pid, [])
    if ws:
        r = subprocess.run([os.path.join(here, 'witness', 'run.sh'), repo], stdout=subprocess.PIPE, stderr=subprocess.STDOUT, text=True)
        lines = re.findall(r'^test src/lib.rs - (\w+) \(line (\d+)\) - (compile fail|compile) \.\.\. (\w+)', r.stdout, re.M)
        rel = [(n, l, k, res) for (n, l, k, res) in lines if n in ws]
        info['witnesses'] = {'ran': len(rel), 'ok': sum(1 for x in rel if x[3] == 'ok'),
                             'items': ['%s@%s %s: %s' % x for x in rel]}
        if not rel:
            viol.append({'property': pid, 'key': 'WIT/not-run', 'detail': 'type-level witnesses could not be built: ' + r.stdout[-600:]})
        for (n, l, k, res) in rel:
            if res != 'ok':
                viol.append({'property': pid, 'key': 'WIT:%s:%s' % (n, k.replace(' ', '-')),
                             'detail': 'type-level witness %s (%s, witness/src/lib.rs:%s) no longer holds: %s' % (n, k, l, 'the program that must be rejected compiles' if k == 'compile fail' else 'the twin that must compile is rejected')})
    # ---- self-tests and seeds
    sys.path.insert(0, os.path.join(here, 'selftest'))
    import importlib
    st = importlib.import_module('run')
    files = []
    for root, _, fs in os.walk(os.path.join(here, 'selftest')):
        for f in sorted(fs):
            if f.endswith('.patch'):
                p = os.path.join(root, f)
                exp, ben, what = st.parse(p)
                if any(e[0] == pid for e in exp) or pid in ben:
                    files.append(p)

    def one(p):
        # restrict the run to this property
        exp, ben, what = st.parse(p)
        return st.run_one(p, repo=repo, only=pid)
    with ThreadPoolExecutor(max_workers=14) as ex:
        results = list(ex.map(one, files))
    info['selftest'] = {
        'applied': sum(1 for r in results if r['status'] != 'skipped'),
        'as_expected': sum(1 for r in results if r['status'] == 'ok'),
        'skipped_patch_does_not_apply': [r['name'] for r in results if r['status'] == 'skipped'],
        'missed': [r['name'] + r.get('detail', '')[:200] for r in results if r['status'] == 'MISSED'],
        'false_alarm_on_benign_variant': [r['name'] + r.get('detail', '')[:200] for r in results if r['status'] == 'FALSE-ALARM'],
        'items': ['%s: %s %s' % (r['name'], r['status'], ','.join(r.get('fired', []))[:160]) for r in results],
    }
    # seeds
    sdir = os.path.join(here, 'seeded')
    seeds = []
    for s in sorted(os.listdir(sdir)):
        mp = os.path.join(sdir, s, 'meta.json')
        if os.path.exists(mp) and os.path.getsize(os.path.join(sdir, s, 'patch.diff')) > 0:
            try:
                if json.load(open(mp)).get('breaks_property') == pid:
                    seeds.append(s)
            except ValueError:
                pass

    def seed_one(s):
        return s, st.run_patch(os.path.join(sdir, s, 'patch.diff'), repo, [pid])
    with ThreadPoolExecutor(max_workers=12) as ex:
        sres = list(ex.map(seed_one, seeds))
    info['seeded_changes'] = {
        'applied': sum(1 for _, r in sres if r is not None),
        'caught': sum(1 for _, r in sres if r and r.get(pid)),
        'items': ['%s: %s' % (s, 'does not apply' if r is None else ('caught by ' + ', '.join(k.split(':')[0] for k in r.get(pid, [])[:3]) if r.get(pid) else 'NOT caught by this property\'s check')) for s, r in sres],
    }
    # ---- mutation-survey regression: every suite-surviving mutant that this property's check reported when the
    # survey was triaged must still be reported, every survivor that was silent (equivalent mutants) must stay silent
    info['survey'] = survey_regression(pid, repo, here)
    return info, viol


def survey_regression(pid, repo, here):
    import shutil, tempfile
    path = os.path.join(here, 'selftest', 'survey', 'results.jsonl')
    if not os.path.exists(path):
        return {'note': 'no survey results filed'}
    rs = [json.loads(l) for l in open(path)]
    rel = [r for r in rs if not r['fired'] or pid in r['fired']]

    def one(m):
        src = os.path.join(repo, m['file'])
        try:
            lines = open(src).read().split('\n')
        except OSError:
            return (m, None)
        if m['line'] - 1 >= len(lines) or lines[m['line'] - 1] != m['orig']:
            return (m, None)
        d = tempfile.mkdtemp(prefix='seqio-surv-')
        try:
            subprocess.run(['rsync', '-a', '--exclude', 'target', '--exclude', '.git', repo + '/', d + '/'], check=True)
            lines[m['line'] - 1] = m['text']
            with open(os.path.join(d, m['file']), 'w') as fh:
                fh.write('\n'.join(lines))
            r = subprocess.run(['python3', os.path.join(here, 'sa', 'allkeys.py'), d], stdout=subprocess.PIPE, stderr=subprocess.DEVNULL, text=True)
            try:
                fired = json.loads(r.stdout.strip().split('\n')[-1])
            except Exception:
                fired = {'error': r.stdout[-200:]}
            return (m, fired)
        finally:
            shutil.rmtree(d, ignore_errors=True)
    with ThreadPoolExecutor(max_workers=14) as ex:
        res = list(ex.map(one, rel))
    applied = [(m, f) for m, f in res if f is not None]
    lost = ['%s:%d %r -> %r' % (m['file'], m['line'], m['old'][:30], m['new'][:30]) for m, f in applied if m['fired'] and pid in m['fired'] and pid not in f]
    noisy = ['%s:%d %r -> %r: %s' % (m['file'], m['line'], m['old'][:30], m['new'][:30], f.get(pid)) for m, f in applied if not m['fired'] and pid in f]
    return {'suite_surviving_mutants_considered': len(rel), 'applied': len(applied),
            'reported_then_and_now': sum(1 for m, f in applied if m['fired'] and pid in m['fired'] and pid in f),
            'silent_then_and_now': sum(1 for m, f in applied if not m['fired'] and pid not in f),
            'no_longer_reported': lost, 'equivalent_mutant_now_reported': noisy}
