"""GROW-1..6 and AFF-1..3 (DESIGN appendix A.2, E7) — property C09 (GROW-1/4 also serve C18)."""
import itertools
import re
from flow import *
from mir import roots_of, data_deps, DefUse, Place, Operand
from rules_par import find_call, unwrap_aggs
from rules_err import is_derive, refill_fn

ALLOWED_BUFREADER = {'buffer', 'capacity', 'read_into_buf', 'reserve', 'make_room', 'with_capacity',
                     'consume', 'seek', 'get_ref', 'get_mut', 'buf_len'}
FORMATS = ('fasta', 'fastq')


def growth_fns(prog):
    return [b for b in prog.bodies.values() if find_call(b, 'buffer_redux::BufReader::reserve')]


def compaction_fns(prog):
    """local functions that call BufRead::consume and BufReader::make_room and are not the refill"""
    return [b for b in prog.bodies.values()
            if find_call(b, 'std::io::BufRead::consume') and find_call(b, 'buffer_redux::BufReader::make_room')]


def run(prog, R):
    R.rule('GROW-1', 'BufReader::reserve is called from exactly one function per format; no other capacity-changing buffer operation is used (with_capacity only in the public constructors)')
    R.rule('GROW-2', 'in the growth function the policy is asked with the value of BufReader::capacity() and reserve() receives (policy result - that capacity)')
    R.rule('GROW-3', 'Error::BufferLimit is constructed only as the None-case (ok_or) of that very grow_to call')
    R.rule('GROW-4', 'the growth function is reachable only through "caller forbids compaction" (bool parameter false) or "record already starts at offset 0"; the other branch compacts')
    R.rule('GROW-5', 'read_record_set_exact passes a flag initialised true whose only stores of false are guarded by the Some-test of the requested record count; next() passes the constant true')
    R.rule('GROW-6', 'set_policy moves every field of the old reader into the same field of the new reader, except the policy which is the argument')
    R.rule('AFF-1', 'StdPolicy::grow_to = double below 2^23, add 2^23 from there on, never refuses')
    R.rule('AFF-2', 'DoubleUntil::grow_to = double below the threshold, add the threshold from there on, never refuses')
    R.rule('AFF-3', 'DoubleUntilLimited::grow_to = as DoubleUntil, Some iff the new size <= limit')
    G = growth_fns(prog)
    # ---------------- GROW-1
    byfmt = {}
    for g in G:
        fmt = 'fasta' if g.file.endswith('fasta.rs') else 'fastq' if g.file.endswith('fastq.rs') else g.file
        byfmt.setdefault(fmt, []).append(g)
    for fmt in FORMATS:
        gs = byfmt.get(fmt, [])
        n = sum(len(find_call(g, 'buffer_redux::BufReader::reserve')) for g in gs)
        R.add('GROW-1', fmt, 'single-growth-site', len(gs) <= 1 and n <= 1, gs and site(gs[0], gs[0].span['lo']) or fmt,
              '%d function(s) / %d call(s) of BufReader::reserve in %s' % (len(gs), n, fmt), undecided=not gs)
    # who may change the capacity: only a function that asks the policy (wherever it lives: a growth helper shared by both readers is fine)
    for g in G:
        asks = bool(find_call(g, 'policy::BufPolicy::grow_to'))
        if not asks and '{closure' in g.key:
            # `policy.grow_to(cap).map(|new_size| buf_reader.reserve(new_size - cap))`: the closure runs on the policy's answer
            par = [q for q in prog.bodies.values() if q.key == g.key.split('::{closure')[0] and q.promoted_of is None]
            asks = any(find_call(q, 'policy::BufPolicy::grow_to') for q in par)
        # ... or asks it through a private function whose result reaches the reserve call (`let wanted = self.next_capacity(cur)?`)
        via = None
        if not asks:
            du_ = DefUse(g)
            for _, rt in find_call(g, 'buffer_redux::BufReader::reserve'):
                for d in data_deps(g, rt.args[1], du_):
                    if d[0] == 'call' and prog.local_callee_body(d[1].callee) is not None and find_call(prog.local_callee_body(d[1].callee), 'policy::BufPolicy::grow_to'):
                        via = prog.local_callee_body(d[1].callee)
        R.add('GROW-1', g, 'reserve-only-where-the-policy-is-asked', asks or via is not None, site(g, g.span['lo']),
              'BufReader::reserve is called in a function that %s BufPolicy::grow_to%s' % ('calls' if asks else 'does NOT call', (' itself, but the amount derives from %s, which does' % via.key) if via is not None else ''))
    for b in prog.bodies.values():
        if is_derive(b):
            continue
        for blk, t in b.calls():
            c = t.callee
            if c is None:
                continue
            tp = c.target_path()
            if prog.local_callee_body(c) is not None:
                continue      # a crate function (e.g. an extension trait on BufReader): its own body is analysed
            if 'buffer_redux' in tp or 'buffer_redux' in c.path:
                name = c.name
                ok = name in ALLOWED_BUFREADER
                if name == 'with_capacity':
                    # a constructor: returns a reader (or a private struct that owns the new buffer) and is not handed an existing one to change
                    ok = 'Reader<' in b.local_tys[0] or (b.local_tys[0].strip() != '()' and not any(
                        ty_.startswith('&mut') and ('Reader<' in ty_ or 'BufReader<' in ty_) for ty_ in b.local_tys[1:b.arg_count + 1]) and
                        not any(('Reader<' in ty_ or 'BufReader<' in ty_) for ty_ in b.local_tys[1:b.arg_count + 1]))
                if not ok:
                    R.add('GROW-1', b, 'buffer-op:%s' % name, False, site(b, t.line),
                          'buffer operation %s is not in the analysed set (may change the capacity) [UNDECIDED]' % tp)
    # ---------------- GROW-2 / GROW-3
    for g in G:
        du = DefUse(g)
        gt = find_call(g, 'policy::BufPolicy::grow_to')
        rs_ = find_call(g, 'buffer_redux::BufReader::reserve')
        if len(gt) != 1 or len(rs_) != 1:
            R.undecided('GROW-2', g, 'shape', site(g, g.span['lo']), 'expected one grow_to and one reserve call')
            continue
        (gb, gtt), (rb, rtt) = gt[0], rs_[0]
        a = roots_of(g, gtt.args[1], du)
        ok = len(a) == 1 and a[0][0] == 'call' and a[0][1].callee.is_('buffer_redux::BufReader::capacity') and not a[0][-1]
        capcall = a[0][1] if ok else None
        if ok:
            # the capacity asked about is that of the very buffer that is enlarged (self.buf_reader, or the parameter of a shared helper)
            recv = roots_of(g, capcall.args[0], du)
            rrecv = roots_of(g, rtt.args[0], du)
            key = lambda rs_: sorted((r[0], r[1] if r[0] == 'arg' else id(r[1]), tuple(x[1] for x in r[-1])) for r in rs_)
            ok = bool(recv) and key(recv) == key(rrecv) and all(r[0] == 'arg' for r in recv)
        ok_pol = True
        cached = bool(a) and all(r[0] == 'arg' for r in a)      # a cached copy of the capacity (a field / parameter): not followed
        R.add('GROW-2', g, 'policy-sees-capacity', ok and ok_pol, site(g, gtt.line),
              'self.buf_policy.grow_to(<- %s)' % [(r[0], r[1].callee.path if r[0] == 'call' else r[1]) for r in a], undecided=(not ok) and cached)
        r = roots_of(g, rtt.args[1], du)
        ok2 = False
        detail = str([(x[0]) for x in r])
        if len(r) == 1 and r[0][0] == 'bin' and r[0][1].rv.j['op'] in ('Sub', 'SubUnchecked', 'SubWithOverflow'):
            s = r[0][1]
            l = roots_of(g, s.rv.ops[0], du)
            rr = roots_of(g, s.rv.ops[1], du)
            okl = len(l) == 1 and l[0][0] == 'call' and l[0][1] is gtt
            okr = len(rr) == 1 and rr[0][0] == 'call' and rr[0][1] is capcall
            ok2 = okl and okr
            detail = 'reserve(%s - %s)' % ('grow_to result' if okl else '?', 'capacity' if okr else '?')
        R.add('GROW-2', g, 'reserve-difference', ok2 and g.cfg.dominates(gb, rb), site(g, rtt.line), detail, undecided=(not ok2) and cached and 'grow_to result' in detail)
    nlim = {}
    for b in prog.bodies.values():
        if is_derive(b) or 'fmt::Display' in b.path or 'fmt::Debug' in b.path or 'error::Error' in b.path:
            continue
        for blk in b.blocks:
            if blk.idx not in b.cfg.rset:
                continue
            for s in blk.stmts:
                if s.k == 'assign' and s.rv.k == 'agg' and s.rv.j.get('variant') == 'BufferLimit':
                    fmt = 'fasta' if 'fasta' in s.rv.j['adt'] else 'fastq'
                    nlim[fmt] = nlim.get(fmt, 0) + 1
                    sinks = forward_sinks(b, s.place.local)
                    oks = [t for (k, t, i, via) in sinks if k == 'call' and t.callee and t.callee.path == 'std::option::Option::ok_or' and i == 1]
                    ok = False
                    how = ''
                    if len(oks) == 1:
                        # (`grow_to(cap).map(|n| reserve(n - cap)).ok_or(BufferLimit)`: map keeps None a None)
                        src = roots_of(b, oks[0].args[0], through_calls=lambda c_: 0 if c_ and c_.path in ('std::option::Option::map', 'std::option::Option::inspect') else None)
                        ok = len(src) == 1 and src[0][0] == 'call' and src[0][1].callee.is_('policy::BufPolicy::grow_to')
                        how = 'the ok_or() alternative of the grow_to result'
                        # ... or of the Option answer of a private function that asks the policy (`grow_buf(..) -> Option<()>` with `grow_to(cap)?`)
                        if not ok and len(src) == 1 and src[0][0] == 'call':
                            hb_ = prog.local_callee_body(src[0][1].callee)
                            if hb_ is not None and 'Option' in hb_.local_tys[0] and find_call(hb_, 'policy::BufPolicy::grow_to'):
                                ok = True
                                how = 'the ok_or() alternative of the answer of %s, which asks the policy' % hb_.key
                    if not ok:
                        # `match grow_to(..) { None => Err(BufferLimit), .. }` or `if !grow_helper(..) { Err(BufferLimit) }`:
                        # constructed under a branch on the verdict of the policy (directly, or as reported by a function that asks it)
                        from rules_view import controlling_switches
                        askers = set(x.path for x in prog.bodies.values() if find_call(x, 'policy::BufPolicy::grow_to'))
                        for a in controlling_switches(b, blk.idx):
                            tt = b.blocks[a].term
                            for d in data_deps(b, tt.discr):
                                if d[0] == 'call' and d[1].callee and (d[1].callee.is_('policy::BufPolicy::grow_to') or
                                                                      (prog.local_callee_body(d[1].callee) is not None and prog.local_callee_body(d[1].callee).path in askers)):
                                    ok = True
                                    how = 'constructed under a branch on the verdict of the policy'
                    R.add('GROW-3', b, 'buffer-limit#%d' % nlim[fmt], ok, site(b, s.line),
                          'Error::BufferLimit is %s' % (how if ok else 'constructed without reference to a refusal of BufPolicy::grow_to'))
    for fmt in FORMATS:
        R.add('GROW-3', fmt, 'one-construction', nlim.get(fmt, 0) >= 1, fmt, '%d construction(s) of %s::Error::BufferLimit' % (nlim.get(fmt, 0), fmt), undecided=nlim.get(fmt, 0) == 0)

    # ---------------- GROW-4
    C = compaction_fns(prog)
    for g in G:
        callers = [(b, blk, t) for b in prog.bodies.values() for blk, t in b.calls()
                   if prog.local_callee_body(t.callee) is g]
        if not callers and '{closure' in g.key:
            par = [q for q in prog.bodies.values() if q.key == g.key.split('::{closure')[0] and q.promoted_of is None]
            callers = [(b, blk, t) for b in prog.bodies.values() for blk, t in b.calls() if prog.local_callee_body(t.callee) in par]
        if not callers:
            R.add('GROW-4', g, 'callers', False, site(g, g.span['lo']), 'growth function has no caller', undecided='{closure' in g.key)
        cg0 = prog.call_graph()

        def reaches_c(pth, seen_=()):
            if pth in seen_ or len(seen_) > 3:
                return False
            qb = prog.bodies.get(pth)
            return qb is not None and (qb in C or any(reaches_c(q, seen_ + (pth,)) for q in cg0.get(pth, ())))
        if g in C or any(prog.local_callee_body(tt.callee) is not None and reaches_c(prog.local_callee_body(tt.callee).path) for _, tt in g.calls()):
            # growth and compaction are decided in one function (the growth is not a function of its own): judge the reserve call there
            callers = [(g, blk, t) for blk, t in find_call(g, 'buffer_redux::BufReader::reserve')]
        for (b, blk, t) in callers:
            du = DefUse(b)
            allowed_edges = set()
            kinds = set()
            for x in b.cfg.reachable:
                tt = b.blocks[x].term
                if tt.k != 'switch' or tt.discr.is_const:
                    continue
                rs = roots_of(b, tt.discr, du)
                if len(rs) != 1:
                    continue
                r = rs[0]
                if r[0] == 'arg' and not r[-1] and b.local_tys[r[1]] == 'bool':
                    # edge taken when the flag is false
                    for v, tg in tt.targets:
                        if v == 0:
                            allowed_edges.add((x, tg))
                            kinds.add('flag')
                elif r[0] == 'bin' and r[1].rv.j['op'] in ('Eq', 'Ne', 'Gt', 'Le', 'Lt', 'Ge'):
                    ops = r[1].rv.ops
                    zero = [o for o in ops if o.const_int() == 0]
                    other = [o for o in ops if o.const_int() != 0]
                    if len(zero) == 1 and len(other) == 1:
                        fr = roots_of(b, other[0], du)
                        names = [[f[1] for f in q[-1]] for q in fr if q[0] == 'arg' and q[1] == 1]
                        # the record start handed in as a parameter (`make_space(policy, keep_from, may_shift)`): every caller passes the start field
                        par = [q[1] for q in fr if q[0] == 'arg' and q[1] > 1 and not q[-1] and b.local_tys[q[1]].strip() == 'usize']
                        if par and len(par) == len(fr):
                            passed = []
                            for cb2 in prog.bodies.values():
                                for _, t2 in cb2.calls():
                                    if prog.local_callee_body(t2.callee) is b and par[0] - 1 < len(t2.args) and not t2.args[par[0] - 1].is_const:
                                        rs2 = roots_of(cb2, t2.args[par[0] - 1])
                                        passed.append(bool(rs2) and all(r2[0] == 'arg' and r2[1] == 1 and [f[1] for f in r2[-1]][:1] == ['buf_pos'] and [f[1] for f in r2[-1]][-1] in ('start', '0') for r2 in rs2))
                            if passed and all(passed):
                                names = [['buf_pos', 'start']]
                        if names and all(n and n[0] == 'buf_pos' and n[-1] in ('start', '0') for n in names):
                            op_ = r[1].rv.j['op']
                            zero_first = ops[0].const_int() == 0
                            # which outcome of the comparison means "record start == 0" (offsets are unsigned)
                            eq_when_true = {'Eq': True, 'Ne': False, 'Gt': zero_first and None, 'Le': (not zero_first) or None,
                                            'Lt': None if not zero_first else False, 'Ge': None if not zero_first else True}[op_]
                            if op_ == 'Gt' and not zero_first:
                                eq_when_true = False      # start > 0  is false exactly at 0
                            if op_ == 'Lt' and zero_first:
                                eq_when_true = False      # 0 < start
                            if op_ == 'Le' and not zero_first:
                                eq_when_true = True       # start <= 0
                            if op_ == 'Ge' and zero_first:
                                eq_when_true = True       # 0 >= start
                            if eq_when_true is True:
                                allowed_edges.add((x, tt.otherwise))
                                kinds.add('start==0')
                            elif eq_when_true is False:
                                for v, tg in tt.targets:
                                    if v == 0:
                                        allowed_edges.add((x, tg))
                                kinds.add('start==0')
            # reachability of the growth call without the allowed edges
            seen = {0}
            st = [0]
            while st:
                x = st.pop()
                for s_ in b.cfg.succ[x]:
                    if (x, s_) in allowed_edges or s_ in seen:
                        continue
                    seen.add(s_)
                    st.append(s_)
            comp = [x for x, tt in b.calls() if prog.local_callee_body(tt.callee) in C]
            if b in C:
                comp += [x for x, tt in find_call(b, 'std::io::BufRead::consume')]      # the function compacts by itself
            ok = blk not in seen and kinds == {'flag', 'start==0'} and bool(comp) and any(c in seen for c in comp)
            # the guard itself is right but the compaction on the other branch is made by a helper this rule does not know
            # as a compaction function: not judged
            helper_other = blk not in seen and kinds == {'flag', 'start==0'} and not (bool(comp) and any(c in seen for c in comp)) and any(
                prog.local_callee_body(tt.callee) is not None and x in seen for x, tt in b.calls() if prog.local_callee_body(tt.callee) is not g)
            path_note = ''
            if not ok and blk in seen:
                # the growth depends on the boolean answer of a private function that compacts (`if !flag || !self.make_room() { grow }`
                # with make_room() returning false when the record already starts at offset 0): the second guard lives there
                cgr = prog.call_graph()
                def reaches_compaction(pth, seen_=()):
                    if pth in seen_:
                        return False
                    qb = prog.bodies.get(pth)
                    return qb is not None and (qb in C or any(reaches_compaction(q, seen_ + (pth,)) for q in cgr.get(pth, ())))
                from rules_view import controlling_switches
                for a_ in controlling_switches(b, blk):
                    for r_ in roots_of(b, b.blocks[a_].term.discr, du):
                        cb_ = prog.local_callee_body(r_[1].callee) if r_[0] == 'call' else None
                        if cb_ is not None and cb_.local_tys[0] == 'bool' and reaches_compaction(cb_.path):
                            helper_other = True
                            path_note = ' - the growth also depends on the answer of %s, which compacts: not judged' % cb_.key
            if not ok and kinds == {'flag'}:
                # the only guard is a bool parameter - which a caller computes (`let shift = make_room && start != 0; self.refill(shift)`):
                # what it stands for is decided there, not here
                flags_here = [l for l in range(1, b.arg_count + 1) if b.local_tys[l] == 'bool']
                for cb2 in prog.bodies.values():
                    for _, t2 in cb2.calls():
                        if prog.local_callee_body(t2.callee) is b:
                            for l in flags_here:
                                if l - 1 < len(t2.args) and not t2.args[l - 1].is_const:
                                    rs2 = roots_of(cb2, t2.args[l - 1])
                                    if any(r2[0] in ('bin', 'un', 'call', 'other') for r2 in rs2):
                                        helper_other = True
                                        path_note = ' - the flag is computed by the caller %s: not judged' % cb2.key
            if not ok and blk in seen and bool(comp):
                # the guard may be a computed boolean (`let can_move = flag && start != 0; if can_move {compact} else {grow}`):
                # decide per path - every path that reaches the growth call has taken "flag false" or "record start == 0"
                from scev import Sym as _Sym, Aff as _Aff
                loops_ = b.cfg.natural_loops()
                hs_ = [h for h, bl in loops_.items() if blk in bl]
                start_ = min(hs_, key=lambda h: len(loops_[h])) if hs_ else 0
                flags_ = set(l for l in range(1, b.arg_count + 1) if b.local_tys[l] == 'bool')
                npaths = nguard = 0
                carried = False
                for pth in _Sym(prog, b).run(start_, stops={start_}):
                    if blk not in pth.blocks:
                        continue
                    npaths += 1
                    before = set(pth.blocks[:pth.blocks.index(blk)])
                    guarded = False
                    for (x_, d_, tk_) in pth.conds:
                        s_ = d_.single() if isinstance(d_, _Aff) and x_ in before else None
                        if not isinstance(s_, tuple):
                            continue
                        if s_[0] == 'H' and s_[1] in flags_ and tk_ == 0:
                            guarded = True
                        if s_[0] == 'cmp' and isinstance(s_[2], _Aff) and isinstance(s_[3], _Aff):
                            a_, c_ = s_[2], s_[3]
                            zero_first = a_.is_const() and a_.c == 0
                            other_ = c_ if zero_first else a_
                            if (zero_first or (c_.is_const() and c_.c == 0)) and re.search(r'buf_pos(\.pos)?\.(start|0)$', repr(other_)):
                                truth = (tk_ != 0) if tk_ is not None else True
                                eq = {('Eq', False): True, ('Eq', True): True, ('Ne', False): False, ('Ne', True): False,
                                      ('Gt', False): False, ('Lt', True): False, ('Le', False): True, ('Ge', True): True}.get((s_[1], zero_first))
                                if eq is not None and truth == eq:
                                    guarded = True
                    nguard += guarded
                    if not guarded and any(isinstance(d_, _Aff) and isinstance(d_.single(), tuple) and d_.single()[0] == 'H' and d_.single()[1] > b.arg_count
                                           and b.local_tys[d_.single()[1]] == 'bool' and x_ in before for (x_, d_, tk_) in pth.conds):
                        carried = True
                if npaths and nguard < npaths and carried:
                    # the decision is kept in a flag that lives across the iterations of the loop (`shift_pending`): whether it implies
                    # the guard is an invariant of the loop, not a property of one path
                    helper_other = True
                    path_note = ' - the growth is decided by a boolean carried around the loop: not judged'
                if npaths and nguard == npaths:
                    ok = any(c in seen for c in comp)
                    path_note = ' - decided per path: all %d paths to the growth call pass "flag false" or "record start == 0"' % npaths
            R.add('GROW-4', b, 'growth-guard', ok, site(b, t.line), undecided=(not ok) and helper_other, detail=path_note +
                  'growth call reachable without (flag false | record start == 0): %s; guards found: %s; compaction on the other branch: %s'
                  % (blk in seen, sorted(kinds), bool(comp) and any(c in seen for c in comp)))
    R.floor('GROW-4', 2)

    # ---------------- GROW-5
    for fmt in FORMATS:
        try:
            rs_exact = prog.get('%s::Reader::read_record_set_exact' % fmt)
            nxt = prog.get('%s::Reader::next' % fmt)
        except KeyError:
            R.anchor_missing('GROW-5', '%s::Reader::{next, read_record_set_exact}' % fmt)
            continue
        for b in (rs_exact, nxt):
            du = DefUse(b)
            for blk, t in b.calls():
                cb = prog.local_callee_body(t.callee)
                if cb is None or not any(prog.local_callee_body(tt.callee) in G for _, tt in cb.calls()):
                    continue
                # the bool argument
                bargs = [a for a in t.args if (a.is_const and a.j.get('ty') == 'bool') or (not a.is_const and b.local_tys[a.place.local] == 'bool')]
                if len(bargs) != 1:
                    R.add('GROW-5', b, 'flag-argument', False, site(b, t.line), 'expected one bool argument')
                    continue
                a = bargs[0]
                if b is nxt:
                    R.add('GROW-5', b, 'next-allows-compaction', a.is_const and a.const_int() == 1, site(b, t.line), 'next() passes %s' % a.pretty())
                    continue
                rs = roots_of(b, a, du)
                consts = [r for r in rs if r[0] == 'const']
                # a flag that is computed (`is_new = is_new && have == 0`) instead of being set from literals: another formulation, not judged
                computed_flag = any(r[0] in ('bin', 'un', 'call') for r in rs)
                # ... unless it is computed from the *physical* offsets vector of a set that keeps a separate record count (seed
                # C18-r6a: `rset.positions.is_empty()` for the FASTA set): that vector keeps the entries of earlier batches
                adt_ = prog.adts.get('%s::RecordSet' % fmt)
                counted_ = bool(adt_) and any(fd['ty'].strip() == 'usize' for fd in adt_['variants'][0]['fields'])
                if counted_:
                    for r in data_deps(b, a, du):
                        if r[0] == 'call' and r[1].callee and r[1].callee.name in ('is_empty', 'len') and r[1].args and 'BufferPosition' in (r[1].callee.resolved or '') + ' '.join(r[1].callee.targs):
                            rv_ = roots_of(b, r[1].args[0], du, through_calls=lambda c_: 0 if c_ and c_.path in ('std::ops::Deref::deref',) else None)
                            if rv_ and all(q[0] == 'arg' and q[-1] for q in rv_):
                                R.add('GROW-5', b, 'flag-from-logical-count', False, site(b, r[1].line),
                                      'the "may the buffer be moved" flag is computed from %s() of the offsets vector of a record set that has a separate record count: the vector keeps the entries of earlier batches, so a reused set never looks empty and the reader grows its buffer instead of moving the record' % r[1].callee.name)
                R.add('GROW-5', b, 'flag-roots-are-constants', len(consts) == len(rs) and any(r[1].const_int() == 1 for r in consts),
                      site(b, t.line), 'flag <- %s' % [r[1].pretty() if r[0] == 'const' else r[0] for r in rs], undecided=computed_flag)
                # stores of false into the flag local(s)
                flag_locals = set()
                if not a.is_const:
                    work = [a.place.local]
                    while work:
                        l = work.pop()
                        if l in flag_locals:
                            continue
                        flag_locals.add(l)
                        for d in du.defs.get(l, []):
                            if d[2] == 'assign' and d[3].rv.k == 'use' and not d[3].rv.ops[0].is_const:
                                work.append(d[3].rv.ops[0].place.local)
                for l in flag_locals:
                    for d in du.defs.get(l, []):
                        if d[2] == 'assign' and d[3].rv.k == 'use' and d[3].rv.ops[0].is_const and d[3].rv.ops[0].const_int() == 0:
                            sb = d[0]
                            guarded = False
                            for x in b.cfg.reachable:
                                tt = b.blocks[x].term
                                if tt.k == 'switch':
                                    q = roots_of(b, tt.discr, du)
                                    if any(r[0] == 'discr' and r[1].rv.place.local == 3 and not r[1].rv.place.proj for r in q):
                                        some_t = [tg for v, tg in tt.targets if v == 1]
                                        some_t = some_t[0] if some_t else tt.otherwise
                                        if b.cfg.dominates(some_t, sb) and some_t != x:
                                            # and the None edge does not reach the store without passing some_t
                                            guarded = True
                            R.add('GROW-5', b, 'compaction-forbidden-only-for-exact-count', guarded, site(b, d[3].line),
                                  'store of false into the flag is dominated by the Some(n) arm of n_records: %s' % guarded, undecided=(not guarded) and computed_flag)
    R.floor('GROW-5', 6)

    # ---------------- GROW-6
    for fmt in FORMATS:
        try:
            sp = prog.get('%s::Reader::set_policy' % fmt)
        except KeyError:
            R.anchor_missing('GROW-6', '%s::Reader::set_policy' % fmt)
            continue
        agg = None
        for blk in sp.blocks:
            for s in blk.stmts:
                if s.k == 'assign' and s.place.local == 0 and s.rv.k == 'agg' and s.rv.j.get('adt', '').endswith('::Reader'):
                    agg = s
        if agg is None:
            # the reader is assembled by a private helper: follow the call that produces the result (one level)
            rs0 = roots_of(sp, Place({'l': 0, 'p': []}))
            helper = None
            if len(rs0) == 1 and rs0[0][0] == 'call' and not rs0[0][-1]:
                hb = prog.local_callee_body(rs0[0][1].callee)
                if hb is not None:
                    for blk in hb.blocks:
                        for s2 in blk.stmts:
                            if s2.k == 'assign' and s2.place.local == 0 and s2.rv.k == 'agg' and s2.rv.j.get('adt', '').endswith('::Reader'):
                                helper = (hb, s2, rs0[0][1])
            if helper is not None:
                hb, hagg, hcall = helper
                for name, op in zip(hagg.rv.j['fields'], hagg.rv.ops):
                    rs = roots_of(hb, op)
                    ok = False
                    src = [(r[0], r[1] if r[0] == 'arg' else '') for r in rs]
                    if len(rs) == 1 and rs[0][0] == 'arg' and not rs[0][-1] and rs[0][1] - 1 < len(hcall.args):
                        cr = roots_of(sp, hcall.args[rs[0][1] - 1])
                        if name == 'buf_policy':
                            ok = len(cr) == 1 and cr[0][0] == 'arg' and cr[0][1] == 2 and not cr[0][-1]
                        else:
                            ok = len(cr) == 1 and cr[0][0] == 'arg' and cr[0][1] == 1 and [x[1] for x in cr[0][-1]] == [name]
                        src = [(r[0], r[1] if r[0] == 'arg' else '', [x[1] for x in r[-1]]) for r in cr]
                    R.add('GROW-6', sp, 'field:%s' % name, ok, site(sp, hcall.line),
                          '%s <- %s (through %s): %s' % (name, src, hb.key, 'the field of the old reader' if ok else 'NOT the field of the old reader: re-initialised, the stream state is lost'))
                continue
            ctor = [t.callee.target_path() for _, t in sp.calls() if t.callee and (t.callee.name in ('with_capacity', 'new', 'from_path', 'with_cap_and_policy', 'with_capacity_and_policy') or 'BufReader::with_capacity' in t.callee.path)]
            if ctor:
                R.add('GROW-6', sp, 'keeps-the-buffer', False, site(sp, sp.span['lo']), 'set_policy builds a new reader / buffer (%s): buffered data, offsets and state of the stream are lost' % ctor)
            else:
                R.undecided('GROW-6', sp, 'shape', site(sp, sp.span['lo']), 'set_policy does not build a Reader aggregate: not judged')
            continue
        for name, op in zip(agg.rv.j['fields'], agg.rv.ops):
            rs = roots_of(sp, op)
            if name == 'buf_policy':
                ok = len(rs) == 1 and rs[0][0] == 'arg' and rs[0][1] == 2 and not rs[0][-1]
            else:
                ok = len(rs) == 1 and rs[0][0] == 'arg' and rs[0][1] == 1 and [x[1] for x in rs[0][-1]] == [name]
            R.add('GROW-6', sp, 'field:%s' % name, ok, site(sp, agg.line),
                  '%s <- %s' % (name, [(r[0], r[1] if r[0] == 'arg' else '', [x[1] for x in r[-1]]) for r in rs]))
    R.floor('GROW-6', 12)

    aff_rules(prog, R)


# --------------------------------------------------------------------------- AFF (E7)

class Undecided(Exception):
    pass


def aff_add(a, b, sign=1):
    out = dict(a)
    for k, v in b.items():
        out[k] = out.get(k, 0) + sign * v
    return {k: v for k, v in out.items() if v != 0}


def aff_scale(a, c):
    return {k: v * c for k, v in a.items() if v * c != 0}


def aff_const(a):
    return a.get(1, 0) if all(k == 1 for k in a) else None


def sym_paths(body, field_syms):
    """Enumerate the paths of a loop-free body symbolically.  Values: ('aff', dict) with symbols
    'x' (the size argument) and the symbols in field_syms (field name -> symbol).
    Returns list of (conditions [(aff, op)], result) where result is ('some', aff) | ('none',)."""
    if body.cfg.back_edges():
        raise Undecided('loop in policy function')
    paths = []

    def val_of(op, env):
        if op.is_const:
            ci = op.const_int()
            if ci is None:
                raise Undecided('non-integer constant %s' % op.pretty())
            return ('aff', {1: ci} if ci else {})
        pl = op.place
        return place_val(pl, env)

    def place_val(pl, env):
        fields = [p['name'] for p in pl.proj if p['k'] == 'field']
        if pl.local == 1 and fields:
            if fields[-1] in field_syms:
                return ('aff', {field_syms[fields[-1]]: 1})
            raise Undecided('unknown field %s' % fields)
        if pl.local == 2 and not fields:
            return ('aff', {'x': 1})
        key = pl.key()
        if key in env:
            return env[key]
        if (pl.local,) in env and not fields:
            return env[(pl.local,)]
        raise Undecided('unknown place %s' % pl.pretty(body))

    ARITH = {'Add': 'Add', 'AddUnchecked': 'Add', 'Sub': 'Sub', 'SubUnchecked': 'Sub', 'Mul': 'Mul', 'MulUnchecked': 'Mul', 'Shl': 'Shl', 'ShlUnchecked': 'Shl'}
    CMP = {'Lt': '<', 'Le': '<=', 'Gt': '>', 'Ge': '>=', 'Eq': '==', 'Ne': '!='}
    CALL_ARITH = {'saturating_mul': 'Mul', 'wrapping_mul': 'Mul', 'saturating_add': 'Add', 'wrapping_add': 'Add'}

    def arith(op, a, b):
        if a[0] != 'aff' or b[0] != 'aff':
            raise Undecided('arithmetic on non-numeric value')
        a, b = a[1], b[1]
        if op == 'Add':
            return ('aff', aff_add(a, b))
        if op == 'Sub':
            return ('aff', aff_add(a, b, -1))
        if op == 'Mul':
            ca, cb = aff_const(a), aff_const(b)
            if cb is not None:
                return ('aff', aff_scale(a, cb))
            if ca is not None:
                return ('aff', aff_scale(b, ca))
            raise Undecided('non-linear multiplication')
        if op == 'Shl':
            ca, cb = aff_const(a), aff_const(b)
            if cb is None:
                raise Undecided('shift by non-constant')
            return ('aff', aff_scale(a, 1 << cb))
        raise Undecided(op)

    def walk(blk, env, conds, depth):
        if depth > 60:
            raise Undecided('path too long')
        b = body.blocks[blk]
        env = dict(env)
        for s in b.stmts:
            if s.k != 'assign':
                continue
            rv = s.rv
            key = s.place.key()
            if rv.k == 'use':
                try:
                    env[key] = val_of(rv.ops[0], env)
                except Undecided:
                    env[key] = ('unknown',)
            elif rv.k == 'bin':
                op = rv.j['op']
                try:
                    a, c = val_of(rv.ops[0], env), val_of(rv.ops[1], env)
                except Undecided:
                    env[key] = ('unknown',)
                    continue
                if op in ARITH:
                    env[key] = arith(ARITH[op], a, c)
                elif op in CMP:
                    if a[0] != 'aff' or c[0] != 'aff':
                        raise Undecided('comparison of non-numeric values')
                    env[key] = ('cmp', aff_add(a[1], c[1], -1), CMP[op])
                else:
                    raise Undecided('operator %s' % op)
            elif rv.k == 'agg':
                v = rv.j.get('variant')
                if rv.j.get('agg') == 'adt' and v == 'Some':
                    env[key] = ('some', val_of(rv.ops[0], env))
                elif rv.j.get('agg') == 'adt' and v == 'None':
                    env[key] = ('none',)
                else:
                    env[key] = ('unknown',)
            elif rv.k == 'ref':
                try:
                    env[key] = place_val(rv.place, env)
                except Undecided:
                    env[key] = ('unknown',)
            elif rv.k == 'cast':
                env[key] = val_of(rv.ops[0], env)
            else:
                env[key] = ('unknown',)
        t = b.term
        if t.k == 'goto':
            return walk(t.j['target'], env, conds, depth + 1)
        if t.k == 'return':
            r = env.get((0,))
            if r is None or r[0] not in ('some', 'none'):
                raise Undecided('return value is not Some(..)/None')
            if r[0] == 'some' and r[1][0] != 'aff':
                raise Undecided('Some(non-numeric)')
            paths.append((list(conds), r))
            return
        if t.k == 'switch':
            d = val_of(t.discr, env)
            if d[0] == 'cmp':
                neg = {'<': '>=', '<=': '>', '>': '<=', '>=': '<', '==': '!=', '!=': '=='}
                for v, tg in t.targets:
                    if v == 0:
                        walk(tg, env, conds + [(d[1], neg[d[2]])], depth + 1)
                walk(t.otherwise, env, conds + [(d[1], d[2])], depth + 1)
                return
            if d[0] == 'aff' and aff_const(d[1]) is not None:
                c = aff_const(d[1])
                for v, tg in t.targets:
                    if v == c:
                        return walk(tg, env, conds, depth + 1)
                return walk(t.otherwise, env, conds, depth + 1)
            raise Undecided('switch on a value outside the fragment')
        if t.k == 'call':
            c = t.callee
            if c and c.name in CALL_ARITH and len(t.args) == 2:
                env[t.dest.key()] = arith(CALL_ARITH[c.name], val_of(t.args[0], env), val_of(t.args[1], env))
                return walk(t.target, env, conds, depth + 1)
            raise Undecided('call of %s' % (c.path if c else '?'))
        if t.k == 'assert':
            return walk(t.j['target'], env, conds, depth + 1)
        raise Undecided('terminator %s' % t.k)

    walk(0, {}, [], 0)
    return paths


def eval_aff(a, env):
    return sum(v * (1 if k == 1 else env[k]) for k, v in a.items())


def holds(c, env):
    v = eval_aff(c[0], env)
    return {'<': v < 0, '<=': v <= 0, '>': v > 0, '>=': v >= 0, '==': v == 0, '!=': v != 0}[c[1]]


def compare_with_spec(paths, grid, spec):
    """Evaluate the extracted path formulas on a grid of (x, T, L) points that realises every
    ordering of the terms {x, T, 2x, x+T, L} (the functions touch their inputs only through
    comparisons of such terms, so one point per ordering cell decides equality on the cell).
    Returns list of disagreements."""
    bad = []
    cells = set()
    for env in grid:
        rs = [r for (conds, r) in paths if all(holds(c, env) for c in conds)]
        if len(rs) != 1:
            bad.append(('no unique path', env))
            continue
        r = rs[0]
        got = None if r[0] == 'none' else eval_aff(r[1][1], env)
        want = spec(env)
        terms = [env['x'], env.get('T', 0), 2 * env['x'], env['x'] + env.get('T', 0), env.get('L', 0)]
        cells.add(tuple((a > b) - (a < b) for a, b in itertools.combinations(terms, 2)))
        if got != want:
            bad.append((got, want, dict(env)))
    return bad, len(cells)


def aff_rules(prog, R):
    def spec_du(env):
        x, T = env['x'], env['T']
        return 2 * x if x < T else x + T

    def spec_lim(env):
        n = spec_du(env)
        return n if n <= env['L'] else None
    cases = [
        ('AFF-1', '<policy::StdPolicy as policy::BufPolicy>::grow_to', {}, 'std'),
        ('AFF-2', '<policy::DoubleUntil as policy::BufPolicy>::grow_to', {'0': 'T'}, 'du'),
        ('AFF-3', '<policy::DoubleUntilLimited as policy::BufPolicy>::grow_to', None, 'lim'),
    ]
    for rid, key, fsyms, kind in cases:
        try:
            b = prog.get(key)
        except KeyError:
            R.anchor_missing(rid, key)
            continue
        if kind == 'lim':
            # map fields to the public constructor's parameters: new(double_until, limit)
            fsyms = {}
            try:
                ctor = prog.get('policy::DoubleUntilLimited::new')
                for blk in ctor.blocks:
                    for s in blk.stmts:
                        if s.k == 'assign' and s.place.local == 0 and s.rv.k == 'agg':
                            for name, op in zip(s.rv.j['fields'], s.rv.ops):
                                rs = roots_of(ctor, op)
                                if len(rs) == 1 and rs[0][0] == 'arg':
                                    fsyms[name] = {1: 'T', 2: 'L'}.get(rs[0][1])
            except KeyError:
                pass
            if sorted(v for v in fsyms.values() if v) != ['L', 'T']:
                R.add(rid, b, 'constructor-maps-fields', False, site(b, b.span['lo']), 'cannot map fields to new(double_until, limit): %s' % fsyms)
                continue
        try:
            paths = sym_paths(b, fsyms)
        except Undecided as e:
            R.undecided(rid, b, 'UNDECIDED', site(b, b.span['lo']), 'policy body outside the affine fragment: %s' % e)
            continue
        if kind == 'std':
            T0 = 1 << 23
            xs = sorted(set(v for k in range(0, 13) for v in (k * (1 << 21) - 2, k * (1 << 21) - 1, k * (1 << 21), k * (1 << 21) + 1, k * (1 << 21) + 2) if v >= 0) | {0, 1, 2, 3, 7, 64 * 1024})
            grid = [{'x': x, 'T': T0} for x in xs]
            # the literal threshold appears as a constant in the formulas; spec uses T0
            bad, ncell = compare_with_spec(paths, grid, lambda env: spec_du({'x': env['x'], 'T': T0}))
        elif kind == 'du':
            grid = [{'x': x, 'T': T} for x in range(0, 26) for T in range(0, 26)]
            bad, ncell = compare_with_spec(paths, grid, spec_du)
        else:
            grid = [{'x': x, 'T': T, 'L': L} for x in range(0, 21) for T in range(0, 21) for L in range(0, 45)]
            bad, ncell = compare_with_spec(paths, grid, spec_lim)
        R.add(rid, b, 'documented-function', not bad, site(b, b.span['lo']),
              '%d symbolic paths, %d grid points over %d ordering cells: %s' % (
                  len(paths), len(grid), ncell, 'agrees with the documented function' if not bad else 'first disagreement (got, want, at) = %s' % (bad[0],)))
        for i, (conds, r) in enumerate(paths):
            pass
