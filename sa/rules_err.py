"""ERR-*, FILL-*, BUF-*, LOOP-1 (DESIGN appendix A.1) — properties C14, C01, C02, C03, C06."""
import re
from flow import *
from mir import roots_of, data_deps, DefUse, Place
from rules_par import find_call, unwrap_aggs

ERR_TYPES = ('std::io::Error', 'fasta::Error', 'fastq::Error')
PROPAGATORS = PASS_THROUGH | {'std::result::Result::map', 'std::option::Option::map', 'std::result::Result::transpose', 'std::option::Option::transpose'}
SWALLOW = {'std::result::Result::ok', 'std::result::Result::err', 'std::result::Result::unwrap_or',
           'std::result::Result::unwrap_or_else', 'std::result::Result::unwrap_or_default',
           'std::result::Result::is_ok', 'std::result::Result::is_err', 'std::mem::drop',
           'std::mem::forget', 'std::result::Result::unwrap', 'std::result::Result::expect',
           'std::result::Result::map_err', 'std::result::Result::or', 'std::result::Result::or_else',
           'std::result::Result::and', 'std::option::Option::unwrap_or', 'std::result::Result::iter',
           'std::result::Result::map_or', 'std::result::Result::map_or_else', 'std::result::Result::is_ok_and',
           'std::result::Result::is_err_and', 'std::iter::Iterator::flatten'}


def carries_error(ty):
    if not (ty.startswith('std::result::Result<') or ty.startswith('std::option::Option<std::result::Result<')):
        return False
    return any(e in ty for e in ERR_TYPES)


def is_derive(body):
    return body.span.get('exp', False) and ('_serde' in body.path or ' as std::fmt::Debug>' in body.path
                                            or ' as std::clone::Clone>' in body.path or ' as std::cmp::' in body.path
                                            or ' as std::default::Default>' in body.path)


def refill_fn(prog):
    """the crate function that calls BufReader::read_into_buf"""
    out = [b for b in prog.bodies.values() if find_call(b, 'buffer_redux::BufReader::read_into_buf')]
    return out


def refill_family(prog):
    """the refill function and the buffer-level wrappers around it: functions that are handed the BufReader (not the reader)
    and call a member of the family (`fill_buf` looping over `read_uninterrupted`)"""
    fam = list(refill_fn(prog))
    grew = True
    while grew:
        grew = False
        for b in prog.bodies.values():
            if b in fam or b.promoted_of is not None or '{closure' in b.key or b.arg_count < 1:
                continue
            if 'BufReader<' in b.local_tys[1] and '::Reader<' not in b.local_tys[1] and any(prog.local_callee_body(t.callee) in fam for _, t in b.calls()):
                fam.append(b)
                grew = True
    return fam


def scope_bodies(prog):
    out = []
    for b in prog.bodies.values():
        if is_derive(b):
            continue
        if not any(b.file.endswith(f) for f in ('fasta.rs', 'fastq.rs', 'lib.rs', 'parallel.rs')):
            continue
        out.append(b)
    return out


def run(prog, R):
    R.rule('ERR-1', 'error linearity: the value of every call returning a Result that carries io::Error / fasta::Error / fastq::Error reaches the return place of the calling function (through `?`, try_opt!, From::from, Err/Some aggregates, Result::map) and is never dropped or handed to a swallowing adaptor')
    R.rule('ERR-2', 'impl From<io::Error> for Error wraps the very value it received in Error::Io')
    R.rule('FILL-1', 'the read_into_buf call of the refill function lies in a loop')
    R.rule('FILL-2', 'the refill loop is left only by: the "buffer full" loop condition, a read of 0 bytes, or a return on the Err arm')
    R.rule('FILL-3', 'on the Err arm the loop continues exactly when io::Error::kind(&e) == ErrorKind::Interrupted; everything else returns')
    R.rule('FILL-4', 'the Err value returned by the refill is the one received from read_into_buf')
    R.rule('FILL-5', 'a read of n>0 bytes always continues the loop (short reads are invisible)')
    R.rule('BUF-1', 'after BufRead::consume the buffer is compacted (BufReader::make_room) before control reaches a refill or leaves the function')
    R.rule('BUF-2', 'within one activation, an end-of-input verdict (buffer().len() < capacity()) is never taken after the buffer was altered (consume/make_room/reserve/seek) without a refill in between, and a function that alters the buffer refills it before returning Ok')
    R.rule('LOOP-1', 'every back edge of a retry loop (one that grows or compacts the buffer) passes through the refill')

    # ---------------------------------------------------------------- ERR-1
    set_prog(prog)
    refills = refill_fn(prog)
    counters = {}
    for body in scope_bodies(prog):
        if body.file.endswith('parallel.rs') and 'fill_data' not in body.path:
            continue
        for blk, t in body.calls():
            c = t.callee
            if c is None:
                continue
            ty = body.local_tys[t.dest.local] if t.dest.is_local() else ''
            if t.dest.local == 0 and not t.dest.proj:
                ty = body.local_tys[0]
            if not carries_error(ty):
                continue
            if c.path in PROPAGATORS or c.path in ('std::ops::Try::branch', 'std::ops::FromResidual::from_residual'):
                continue
            if c.is_('buffer_redux::BufReader::read_into_buf') and body in refills:
                continue      # governed by FILL-1..5
            short = c.target_path().split('::')[-1]
            counters[(body.path, short)] = counters.get((body.path, short), 0) + 1
            inst = '%s#%d' % (short, counters[(body.path, short)])
            if t.dest.local == 0:
                R.add('ERR-1', body, inst, True, site(body, t.line), 'tail call: the result is the return value')
                continue
            sinks = forward_sinks(body, t.dest.local, follow_refs=True, through=PROPAGATORS)
            ret = any(k == 'ret' and not via for (k, n, i, via) in sinks)
            if not ret:
                # the error handed to a private function that wraps it into the reader's error (`return Err(self.discard_buffer(e))`
                # with `fn discard_buffer(&mut self, e: io::Error) -> Error`), whose result is returned
                for (k, n, i, via) in sinks:
                    hb_ = prog.local_callee_body(n.callee) if (k == 'call' and n.callee is not None) else None
                    def wraps(hb, pidx):
                        rs_ = roots_of(hb, Place({'l': 0, 'p': []}))
                        if not rs_:
                            return False
                        for r_ in rs_:
                            if r_[0] == 'agg' and r_[1].rv.j.get('variant') == 'Io' and r_[1].rv.ops:
                                src_ = roots_of(hb, r_[1].rv.ops[0])
                            elif r_[0] == 'call' and r_[1].callee and r_[1].callee.path in ('std::convert::From::from', 'std::convert::Into::into') and r_[1].args:
                                src_ = roots_of(hb, r_[1].args[0])
                            else:
                                return False
                            if not (src_ and all(q_[0] == 'arg' and q_[1] == pidx and not q_[-1] for q_ in src_)):
                                return False
                        return True
                    if hb_ is not None and hb_.local_tys[0].strip() in ('fasta::Error', 'fastq::Error') and n.dest.is_local() and wraps(hb_, i + 1):
                        s2 = forward_sinks(body, n.dest.local, follow_refs=True, through=PROPAGATORS)
                        if any(k2 == 'ret' for (k2, n2, i2, v2) in s2):
                            ret = True
            drops = [n for (k, n, i, via) in sinks if k == 'drop' and not via]
            # a drop on the arm of a match where the value is known to be Ok (`match r { Ok(false) => {}, other => return other }`)
            # discards no error
            if drops:
                ok_arm = set()
                for a_ in body.cfg.reachable:
                    tt_ = body.blocks[a_].term
                    if tt_.k == 'switch' and not tt_.discr.is_const:
                        for r_ in roots_of(body, tt_.discr):
                            if r_[0] == 'discr' and r_[1].rv.place.local == t.dest.local and not [q for q in r_[1].rv.place.proj if q['k'] != 'deref']:
                                for v_, tg_ in tt_.targets:
                                    if v_ == 0:
                                        ok_arm.add(tg_)
                            # `if res.is_ok() { res = next_step() }`: the value overwritten there is an Ok
                            if r_[0] == 'call' and r_[1].callee is not None and r_[1].callee.path in ('std::result::Result::is_ok', 'std::result::Result::is_err') and r_[1].args \
                                    and any(d_[0] == 'call' and d_[1] is t for d_ in data_deps(body, r_[1].args[0])):
                                if r_[1].callee.path.endswith('is_ok'):
                                    ok_arm.add(tt_.otherwise)
                                else:
                                    ok_arm |= set(tg_ for v_, tg_ in tt_.targets if v_ == 0)
                def on_ok_arm(term_):
                    bx = [x_ for x_ in body.cfg.reachable if body.blocks[x_].term is term_]
                    return bool(bx) and any(body.cfg.dominates(o_, bx[0]) for o_ in ok_arm)
                drops = [n for n in drops if not on_ok_arm(n)]
            swallow = [n for (k, n, i, via) in sinks if k == 'call' and not via and n.callee and n.callee.path in SWALLOW and not is_lossless_map_err(n, body)]
            ok = ret and not drops and not swallow
            why = []
            if not ret:
                why.append('the value never reaches the return place')
            if drops:
                why.append('dropped at line %s' % drops[0].line)
            if swallow:
                why.append('passed to %s at line %s' % (swallow[0].callee.path, swallow[0].line))
            R.add('ERR-1', body, inst, ok, site(body, t.line),
                  'result of %s: %s' % (c.target_path(), 'propagated to the caller' if ok else '; '.join(why)))
    R.floor('ERR-1', 45)

    # ---------------------------------------------------------------- ERR-2
    for b in prog.bodies.values():
        if b.key.endswith('as std::convert::From>::from') and 'Error' in b.path and 'std::io::Error' in b.path:
            ok = False
            for blk in b.blocks:
                for s in blk.stmts:
                    if s.k == 'assign' and s.place.local == 0 and s.rv.k == 'agg' and s.rv.j.get('variant') == 'Io':
                        rs = roots_of(b, s.rv.ops[0])
                        ok = len(rs) == 1 and rs[0][0] == 'arg' and rs[0][1] == 1 and not rs[0][-1]
            R.add('ERR-2', b, 'wrap', ok and len(list(b.calls())) == 0, site(b, b.span['lo']), 'from(e) = Error::Io(e): %s' % ok)
    R.floor('ERR-2', 2)

    # ---------------------------------------------------------------- FILL-0: who may read from the source
    R.rule('FILL-0', 'the readers obtain bytes from the source only through the one refill function (the loop FILL-1..5 govern); no other code calls read / fill_buf / read_into_buf')
    SOURCE_READS = ('std::io::BufRead::fill_buf', 'std::io::Read::read', 'std::io::Read::read_exact', 'std::io::Read::read_to_end',
                    'std::io::Read::read_buf', 'std::io::Read::read_vectored', 'std::io::BufRead::read_until', 'std::io::BufRead::read_line',
                    'buffer_redux::BufReader::read_into_buf')
    nread = 0
    for body in scope_bodies(prog):
        if not any(body.file.endswith(f) for f in ('fasta.rs', 'fastq.rs', 'lib.rs')):
            continue
        for blk, t in body.calls():
            c = t.callee
            if c is None:
                continue
            if c.path in SOURCE_READS or c.target_path() in SOURCE_READS or (c.name in ('fill_buf', 'read_into_buf') and ('buffer_redux' in c.target_path() or 'std::io' in c.path)):
                nread += 1
                ok = body in refills and c.is_('buffer_redux::BufReader::read_into_buf')
                R.add('FILL-0', body, 'source-read:%s#%d' % (c.name, nread), ok, site(body, t.line),
                      '%s is called %s' % (c.target_path(), 'inside the refill loop' if ok else 'outside the refill function: a single (possibly short) read is taken for a refill, so a partly filled buffer looks like the end of the input'))
    R.floor('FILL-0', 1)
    # ---------------------------------------------------------------- FILL
    if len(refills) != 1:
        R.anchor_missing('FILL-1', 'exactly one crate function calling BufReader::read_into_buf (found %d)' % len(refills))
    else:
        fill_rules(prog, R, refills[0])

    # ---------------------------------------------------------------- BUF-1, BUF-2, LOOP-1
    if len(refills) == 1:
        buf_rules(prog, R, refills[0])
        fill_count_rules(prog, R, refills[0])
        fill_guard_rule(prog, R, refills[0])


def fill_guard_rule(prog, R, f):
    """FILL-7 (mutation survey: `initial_size = buffer.len() + 1` passes the suite, whose sources fill the buffer in one read)"""
    from scev import Sym, Aff, Agg, Path, recurrence
    R.rule('FILL-7', 'when the refill loop is left through its "buffer full" condition the buffer IS full: the quantity compared with the capacity never exceeds (length of the buffer at entry + bytes read so far), solved from the recurrence of the byte counter; otherwise a source that delivers few bytes per read leaves the buffer one short of full, which the readers take for the end of the input')
    where = site(f, f.span['lo'])
    loops = f.cfg.natural_loops()
    rd = [x for x, t in f.calls() if t.callee and t.callee.is_('buffer_redux::BufReader::read_into_buf')]
    hs = [h for h, bl in loops.items() if rd and rd[0] in bl]
    if not hs:
        R.anchor_missing('FILL-7', 'loop around read_into_buf')
        return
    h = min(hs, key=lambda x: len(loops[x]))
    ev = Sym(prog, f)
    ent = [p for p in ev.run(0, stops={h}) if p.end == ('stop', h)]
    if len(ent) != 1:
        R.anchor_missing('FILL-7', 'single path from the entry to the refill loop')
        return
    ent = ent[0]
    init = Path()
    # inside the loop the buffer is another one than at the entry: its length is (entry length + bytes read so far), not the entry length
    LOOPV = ent.env.get('#buf', 0) + 1000
    init.env['#buf'] = LOOPV
    paths = ev.run(h, stops={h}, init=init)
    back = [p for p in paths if p.end == ('stop', h)]
    E = Aff.sym(('len', ('buffer', ent.env.get('#buf', 0))))
    S = Aff.sym(('BYTES_READ',))
    nsym = None
    for p in back:
        for (x, t, a) in p.effects:
            if t.callee and t.callee.is_('buffer_redux::BufReader::read_into_buf'):
                nsym = Aff.sym(('f', ('call', t.callee.path, x), 'Ok', '0'))
    carried = set()
    for p in back:
        carried |= set(l for l, v in p.env.items() if isinstance(l, int) and isinstance(v, Aff) and v != Aff.sym(('H', l)))
    closed = {}
    over = []
    for l in carried:
        e = ent.env.get(l, Aff.sym(('H', l)))
        # the arm that reads nothing leaves the counter alone: mixed same/inc is fine
        kinds = set()
        for p in back:
            v = p.env.get(l, Aff.sym(('H', l)))
            kinds.add('same' if v == Aff.sym(('H', l)) else 'inc' if nsym is not None and v == Aff.sym(('H', l)) + nsym else 'latest' if nsym is not None and v == nsym else 'other')
        if kinds == {'same'}:
            closed[l] = e
        elif kinds <= {'same', 'inc'} and isinstance(e, Aff):
            closed[l] = e + S          # entry value + the bytes read so far (a counter of bytes read, or of the fill level)
        elif kinds <= {'same', 'inc', 'latest'} and isinstance(e, Aff) and e.is_const() and e.c <= 0:
            closed[l] = S              # upper bound: at most the bytes read so far
        else:
            closed[l] = None
            over.append(f.names.get(l, '_%d' % l))
    exits = [p for p in paths if p.end[0] == 'return' and not any(t.callee and t.callee.is_('buffer_redux::BufReader::read_into_buf') for (_, t, _) in p.effects)]
    if not exits:
        R.anchor_missing('FILL-7', 'exit of the refill loop through its condition')
        return
    n = 0
    for p in exits:
        n += 1
        ok = False
        detail = 'no comparison with the capacity on the exit path'
        for (_, d, taken) in p.conds:
            s1 = d.single() if isinstance(d, Aff) else None
            if not (isinstance(s1, tuple) and s1[0] == 'cmp' and s1[1] in ('Lt', 'Le', 'Gt', 'Ge')):
                continue
            op, a, c = s1[1], s1[2], s1[3]
            truth = taken is None or taken != 0
            # relation that holds on the exit path, as  D >= m
            dd = a - c
            rel = {('Lt', False): (dd, 0), ('Le', False): (dd, 1), ('Gt', True): (dd, 1), ('Ge', True): (dd, 0),
                   ('Lt', True): (-dd, 1), ('Le', True): (-dd, 0), ('Gt', False): (-dd, 0), ('Ge', False): (-dd, 1)}[(op, truth)]
            D, m = rel

            def sub(sym):
                if isinstance(sym, tuple) and sym[0] == 'H':
                    if sym[1] in closed:
                        return closed[sym[1]]
                    v_ = ent.env.get(sym[1])
                    return v_ if isinstance(v_, Aff) else None
                return None
            # loop-invariant locals (e.g. `free = capacity - len` computed once) are replaced by their entry values first
            inv = {k[1] for k in D.t if isinstance(k, tuple) and k[0] == 'H' and k[1] not in closed}
            if inv:
                D = D.subst(lambda sy: (ent.env.get(sy[1]) if isinstance(ent.env.get(sy[1]), Aff) else None) if (isinstance(sy, tuple) and sy[0] == 'H' and sy[1] in inv) else None)
            caps = [k for k in D.t if isinstance(k, tuple) and k[0] == 'call' and 'capacity' in str(k[1])]
            if len(caps) != 1 or D.t[caps[0]] != -1:
                continue
            X = D + Aff.sym(caps[0])
            used = [k[1] for k in X.t if isinstance(k, tuple) and k[0] == 'H']
            Xc = X.subst(sub) if all(closed.get(k, 0) is not None for k in used) else None
            if Xc is not None:
                # the length of the buffer asked inside the loop (`reader.buf_len()`, `reader.buffer().len()` in the condition)
                Xc = Xc.subst(lambda sy: (E + S) if (isinstance(sy, tuple) and sy[0] == 'len' and isinstance(sy[1], tuple) and sy[1][0] == 'buffer' and isinstance(sy[1][1], int) and sy[1][1] >= LOOPV) else None)
            if Xc is None:
                detail = 'the compared quantity depends on a counter whose recurrence is not "+= bytes read": %s' % [f.names.get(k, '_%d' % k) for k in used if closed.get(k, 0) is None]
                continue
            coef_ok = all(k in (E.single(), S.single()) and 0 <= v <= 1 for k, v in Xc.t.items())
            ok = coef_ok and Xc.c <= m
            detail = 'exit when %r - capacity >= %d with %r <= (entry length + bytes read) + %d: buffer full on this exit: %s' % (Xc, m, Xc, Xc.c, ok)
        R.add('FILL-7', f, 'full-exit-implies-full-buffer', ok, where, detail, undecided=(not ok) and detail.startswith('no comparison'))
    R.floor('FILL-7', 1)
    # FILL-6 (seed C06-r5b): what the refill returns is the number of bytes it added - its callers take "0" for "nothing more
    # to read" (`while fill_buf(..)? > 0`); the fill level of the buffer is 0 only for an empty buffer
    nret = 0
    for p in paths:
        r0 = p.env.get(0)
        if p.end[0] != 'return' or getattr(r0, 'variant', None) != 'Ok' or not r0.fields or not isinstance(r0.fields[0], Aff):
            continue
        v = r0.fields[0]
        used = [k[1] for k in v.t if isinstance(k, tuple) and k[0] == 'H']
        if any(closed.get(k, 0) is None for k in used):
            continue
        vc = v.subst(lambda sym: (closed[sym[1]] if sym[1] in closed else (ent.env.get(sym[1]) if isinstance(ent.env.get(sym[1]), Aff) else None)) if (isinstance(sym, tuple) and sym[0] == 'H') else None)
        vc = vc.subst(lambda sy: (E + S) if (isinstance(sy, tuple) and sy[0] == 'len' and isinstance(sy[1], tuple) and sy[1][0] == 'buffer' and isinstance(sy[1][1], int) and sy[1][1] >= LOOPV) else None)
        if vc == S:
            verdict = True
        elif vc == E + S:
            verdict = False
        else:
            verdict = None
        nret += 1
        R.add('FILL-6', f, 'returns-the-bytes-added#%d' % nret, verdict is True, where,
              'value returned on success = %r (required: the bytes read in this call; the length of the buffer is "entry length + bytes read")' % (vc,), undecided=verdict is None)


def fill_count_rules(prog, R, refill):
    """FILL-6 (added after the mutation survey: `fill_buf()? > 1`, `n == 1` pass the test suite)"""
    R.rule('FILL-6', 'the number of bytes returned by the refill is only ever tested for "nothing read" (== 0 / > 0): a test against any other constant takes a refill that delivered few bytes (the last byte of the input, a buffer with one free byte) for the end of the input')
    n = 0
    for b in scope_bodies(prog):
        if not any(prog.local_callee_body(t.callee) is refill for _, t in b.calls()):
            continue
        du = DefUse(b)
        n = 0
        for x in sorted(b.cfg.reachable):
            for st in b.blocks[x].stmts:
                if st.k != 'assign' or st.rv.k != 'bin' or st.rv.j['op'] not in ('Lt', 'Le', 'Gt', 'Ge', 'Eq', 'Ne'):
                    continue
                sides = []
                for o in st.rv.ops:
                    rs = roots_of(b, o, du)
                    sides.append(bool(rs) and all(r[0] == 'call' and prog.local_callee_body(r[1].callee) is refill for r in rs))
                if sides[0] == sides[1]:
                    continue
                cv = resolve_const_operand(b, st.rv.ops[1 if sides[0] else 0], du)
                n += 1
                if not cv or cv[0] != 'int':
                    R.add('FILL-6', b, 'count-test#%d' % n, True, site(b, st.line), 'the count is compared with a non-constant (not a threshold test)')
                    continue
                c = cv[1]
                op = st.rv.j['op']

                def truth(cnt):
                    a, d = (cnt, c) if sides[0] else (c, cnt)
                    return {'Lt': a < d, 'Le': a <= d, 'Gt': a > d, 'Ge': a >= d, 'Eq': a == d, 'Ne': a != d}[op]
                ok = truth(0) != truth(1) and truth(1) == truth(2) == truth(1 << 40)
                R.add('FILL-6', b, 'count-test#%d' % n, ok, site(b, st.line),
                      'the refill count is tested with %s against %d: distinguishes exactly "0 bytes" from "some bytes": %s' % (op, c, ok))
    R.floor('FILL-6', 2)


def fill_rules(prog, R, f):
    cfg = f.cfg
    (rb, rt), = find_call(f, 'buffer_redux::BufReader::read_into_buf')[:1]
    loops = cfg.natural_loops()
    hs = [h for h, bl in loops.items() if rb in bl]
    R.add('FILL-1', f, 'read-in-loop', len(hs) == 1, site(f, rt.line), 'read_into_buf is inside %d loop(s)' % len(hs))
    if len(hs) != 1:
        return
    h = hs[0]
    L = loops[h]
    du = DefUse(f)
    res = rt.dest.local
    # classify blocks by the arm of the match on the read result
    def payload_reads(variant):
        out = set()
        for b in L:
            for s in f.blocks[b].stmts:
                if s.k == 'assign':
                    pls = []
                    if s.rv.place is not None:
                        pls.append(s.rv.place)
                    pls += [o.place for o in s.rv.ops if not o.is_const]
                    for pl in pls:
                        if pl.local == res and any(p['k'] == 'downcast' and p['variant'] == variant for p in pl.proj):
                            out.add(b)
            t = f.blocks[b].term
            if t.k == 'switch' and not t.discr.is_const and t.discr.place.local == res and \
                    any(p['k'] == 'downcast' and p['variant'] == variant for p in t.discr.place.proj):
                out.add(b)
        return out
    # ---- FILL-2 / FILL-4 / FILL-5, path-based (one symbolic iteration of the loop; any loop shape: while / loop+break / match arms)
    from scev import Sym, Aff, Agg, Path, linear_preds, preds_hold
    ev = Sym(prog, f)
    paths = ev.run(h, stops={h})
    res_sym = ('call', rt.callee.path, rb)
    okn = Aff.sym(('f', res_sym, 'Ok', '0'))

    def variant_of(p):
        for (x, d, taken) in p.conds:
            s1 = d.single() if isinstance(d, Aff) else None
            if s1 == ('discr', res_sym):
                return {0: 'Ok', 1: 'Err'}.get(taken)
            if isinstance(s1, tuple) and s1[0] == 'discr' and isinstance(s1[1], tuple) and s1[1][0] == 'try' and s1[1][1] == res_sym:
                return {0: 'Ok', 1: 'Err'}.get(taken)
        return None

    def zeroness(p):
        """'zero' / 'nonzero' / None from the conditions on the number of bytes read"""
        out = None
        for (x, d, taken) in p.conds:
            if d == okn:
                tg = [v for v, _ in f.blocks[x].term.targets] if f.blocks[x].term.k == 'switch' else []
                if taken == 0:
                    out = 'zero'
                elif taken is None and 0 in tg:
                    out = 'nonzero'
        preds = linear_preds(p.conds, okn)
        if preds:
            h0, h1, h2 = preds_hold(preds, 0), preds_hold(preds, 1), preds_hold(preds, 1 << 40)
            if h0 and not h1 and not h2:
                out = 'zero'
            elif not h0 and h1 and h2:
                out = 'nonzero'
            elif out is None:
                out = 'threshold'     # a test against another constant (FILL-6 reports it where the count is used by the readers)
        return out
    seen_zero_exit = False
    any_passthrough = False
    n_ok = n_bad_ok = 0
    for p in paths:
        did_read = any(t is rt for (_, t, _) in p.effects)
        exits = p.end[0] == 'return'
        back = p.end == ('stop', h)
        line = f.blocks[p.blocks[-1]].term.line or rt.line
        r0 = p.env.get(0)
        if not did_read:
            if exits:
                capd = any(isinstance(sy, tuple) and sy[0] == 'call' and 'capacity' in str(sy[1]) for (_, d, _) in p.conds if isinstance(d, Aff) for sy in d.syms())
                if not capd:
                    # the quantity compared was derived from the capacity before the loop (`free = capacity - len`)
                    try:
                        ent_ = [q for q in ev.run(0, stops={h}) if q.end == ('stop', h)]
                        for (_, d, _) in p.conds:
                            if isinstance(d, Aff):
                                for sy in d.syms():
                                    if isinstance(sy, tuple) and sy[0] == 'H' and ent_ and isinstance(ent_[0].env.get(sy[1]), Aff):
                                        if any(isinstance(s2, tuple) and s2[0] == 'call' and 'capacity' in str(s2[1]) for s2 in ent_[0].env[sy[1]].syms()):
                                            capd = True
                    except Exception:
                        pass
                R.add('FILL-2', f, 'exit:loop-condition', capd, site(f, line), 'left without reading under a condition that %s the capacity (that it implies a full buffer is FILL-7)' % ('compares with' if capd else 'does NOT mention'))
            continue
        var = variant_of(p)
        # the result of the read handed on as it is (`result => return result`): this function is a single (retried) read, the
        # loop that fills the buffer is its caller's - whatever was read, Ok(0) and the error included, leaves through here
        passthrough = exits and isinstance(r0, Aff) and r0.single() == res_sym
        if passthrough:
            seen_zero_exit = True
            any_passthrough = True
            R.add('FILL-2', f, 'exit:result-handed-on', True, site(f, line), 'the result of the read is returned as received (also Ok(0) and every error that is not retried)')
            if var == 'Err':
                R.add('FILL-4', f, 'returned-error-is-received-error', True, site(f, line), 'the received result is returned as it is')
            continue
        if var == 'Ok':
            z = zeroness(p)
            if exits and z == 'zero':
                seen_zero_exit = True
                R.add('FILL-2', f, 'exit:read-zero', True, site(f, line), 'left on Ok(0)')
            elif exits:
                n_bad_ok += 1
                R.add('FILL-2', f, 'exit:other@ok-arm', False, site(f, line),
                      'the refill stops although bytes were read (%s): a refill must only stop when the buffer is full, the source is exhausted, or on a non-Interrupted error' % (z or 'no test of the count'))
            elif back and z == 'zero':
                R.add('FILL-2', f, 'zero-read-continues', False, site(f, line), 'a read of 0 bytes continues the loop: the refill never ends at the end of the input')
            elif back:
                n_ok += 1
        elif var == 'Err':
            if exits:
                err = isinstance(r0, Agg) and r0.variant == 'Err'
                R.add('FILL-2', f, 'exit:error-return', err, site(f, line), 'Err arm leaves the loop by returning Err: %s' % err)
                if err:
                    pay = r0.fields[0] if r0.fields else None
                    okp = pay == Aff.sym(('f', res_sym, 'Err', '0'))
                    R.add('FILL-4', f, 'returned-error-is-received-error', okp, site(f, line), 'returned Err payload <- %r' % (pay,))
                elif isinstance(r0, Aff) and isinstance(r0.single(), tuple) and 'from_residual' in str(r0.single()):
                    R.add('FILL-4', f, 'returned-error-is-received-error', True, site(f, line), 'returned through `?`')
        else:
            if exits and not (isinstance(r0, Agg) and r0.variant == 'Err'):
                R.undecided('FILL-2', f, 'exit:unclassified', site(f, line), 'an exit after the read whose arm (Ok / Err) is not visible to this rule')
    if not seen_zero_exit:
        R.add('FILL-2', f, 'exit-missing:zero', False, site(f, rt.line), 'no way out of the refill loop on a read of 0 bytes: the refill cannot end at the end of the input')
    R.add('FILL-5', f, 'nonzero-continues', n_bad_ok == 0 and n_ok > 0, site(f, rt.line),
          'iterations with Ok(n>0) that continue the loop: %d; that leave it: %d' % (n_ok, n_bad_ok), undecided=(n_bad_ok == 0 and n_ok == 0))
    # FILL-3
    erd = payload_reads('Err')
    if not erd:
        R.undecided('FILL-3', f, 'interrupted-guard', site(f, rt.line), 'the Err arm of the read is not visible to this rule (e.g. `?`)')
        R.floor('FILL-3', 0)
        return
    err_arm = [x for x in erd if all(cfg.dominates(x, y) for y in erd)]
    err_arm = err_arm[0] if err_arm else sorted(erd)[0]
    err_region = cfg.reach_from(err_arm, removed={h}, include_start=True) & set(L)
    retry = None
    for b in err_region:
        t = f.blocks[b].term
        if t.k != 'switch':
            continue
        rs = roots_of(f, t.discr, du)
        for r in rs:
            if r[0] == 'call' and r[1].callee and r[1].callee.path in ('std::cmp::PartialEq::eq', 'std::cmp::PartialEq::ne'):
                ct = r[1]
                a0 = roots_of(f, ct.args[0], du)
                a1 = resolve_const_operand(f, ct.args[1], du)
                kind_ok = any(x[0] == 'call' and x[1].callee and x[1].callee.is_('std::io::Error::kind') for x in a0)
                if not kind_ok:
                    a0b = roots_of(f, ct.args[1], du)
                    a1b = resolve_const_operand(f, ct.args[0], du)
                    kind_ok = any(x[0] == 'call' and x[1].callee and x[1].callee.is_('std::io::Error::kind') for x in a0b)
                    a1 = a1b
                    a0 = a0b
                if kind_ok:
                    # kind() must be taken of the received error
                    kcall = [x[1] for x in a0 if x[0] == 'call'][0]
                    er = roots_of(f, kcall.args[0], du)
                    of_recv = any(x[0] == 'call' and x[1] is rt for x in er)
                    is_eq = ct.callee.path.endswith('::eq')
                    true_t = t.otherwise if is_eq else [tg for v, tg in t.targets if v == 0][0]
                    retry = (b, t, a1, true_t, of_recv)
    if retry is None:
        R.add('FILL-3', f, 'interrupted-guard', False, site(f, rt.line), 'no comparison of io::Error::kind(&e) with a constant on the Err arm (interrupted reads would surface) [or outside the analysable fragment: UNDECIDED]')
    else:
        b, t, const, retry_t, of_recv = retry
        okc = const == ('enum', 'std::io::ErrorKind', 'Interrupted')
        R.add('FILL-3', f, 'retried-kind', okc and of_recv, site(f, t.line), 'retry is guarded by kind(received error) == %s' % (const,))
        # the retry edge reaches the header without leaving
        reach = cfg.reach_from(retry_t, removed={h}, include_start=True)
        leaves = [x for x in reach if x not in L]
        reaches_h = h in cfg.reach_from(retry_t, include_start=True) and not leaves
        R.add('FILL-3', f, 'interrupted-continues', reaches_h, site(f, t.line), 'Interrupted arm goes back to the loop head: %s' % reaches_h)
        # every other path of the Err arm leaves the loop
        succ_wo = {}
        removed_edge = (b, retry_t)
        seen = set()
        st = [err_arm]
        back = False
        while st:
            x = st.pop()
            if x in seen:
                continue
            seen.add(x)
            for s_ in cfg.succ[x]:
                if (x, s_) == removed_edge:
                    continue
                if s_ == h:
                    back = True
                    continue
                if s_ in L:
                    st.append(s_)
        R.add('FILL-3', f, 'only-interrupted-continues', not back, site(f, t.line),
              'loop head reachable from the Err arm other than through the Interrupted guard: %s' % back)


ALTER = ('std::io::BufRead::consume', 'buffer_redux::BufReader::make_room', 'buffer_redux::BufReader::reserve',
         'std::io::Seek::seek')


_PROG = [None]


def is_eof_test(body, blk, du):
    """switch whose condition compares something derived from buffer().len() with capacity()"""
    t = body.blocks[blk].term
    if t.k != 'switch':
        return False
    rs = roots_of(body, t.discr, du)
    for r in rs:
        if r[0] == 'bin' and r[1].rv.j['op'] in ('Lt', 'Le', 'Gt', 'Ge', 'Eq', 'Ne'):
            deps = data_deps(body, r[1].rv.ops[0], du) + data_deps(body, r[1].rv.ops[1], du)
            calls = [x[1].callee for x in deps if x[0] == 'call' and x[1].callee]
            has_cap = any(c.is_('buffer_redux::BufReader::capacity') for c in calls)
            has_len = any(c.path.endswith('slice::len') or c.name == 'len' or c.is_('buffer_redux::BufReader::buf_len') for c in calls)
            has_buf = any(is_buffer_call(_PROG[0], c) or c.is_('buffer_redux::BufReader::buf_len') for c in calls)
            if has_cap and has_len and has_buf:
                return True
    return False


def buf_rules(prog, R, refill):
    _PROG[0] = prog
    bodies = [b for b in prog.bodies.values() if not is_derive(b) and (b.file.endswith('fasta.rs') or b.file.endswith('fastq.rs') or b.file.endswith('lib.rs'))]
    # ---- BUF-1
    for b in bodies:
        cons = [(x, t) for x, t in find_call(b, 'std::io::BufRead::consume') if not is_discard_all(prog, b, t)]
        n = 0
        for cb, ct in cons:
            n += 1
            mr = set(x for x, t in find_call(b, 'buffer_redux::BufReader::make_room'))
            reach = b.cfg.reach_from(cb, removed=mr)
            bad = [x for x in reach if b.blocks[x].term.k == 'return' or
                   (b.blocks[x].term.k == 'call' and prog.local_callee_body(b.blocks[x].term.callee) is refill)]
            okb = not bad and bool(mr)
            R.add('BUF-1', b, 'consume#%d' % n, okb, site(b, ct.line),
                  'consume is followed by BufReader::make_room on every path before a refill / return: %s%s' % (okb, '' if okb or not consume_amount_is_opaque(prog, b, ct) else ' (the amount is a cached quantity / parameter: it may be the whole buffer - not judged)'),
                  undecided=(not okb) and consume_amount_is_opaque(prog, b, ct))
    R.floor('BUF-1', 3)
    # ---- transitive summaries over the local call graph
    cg = prog.call_graph()
    def trans(pred_direct):
        memo = {}
        def go(p, stack=()):
            if p in memo:
                return memo[p]
            if p in stack:
                return False
            b = prog.bodies.get(p)
            v = False
            if b is not None:
                v = pred_direct(b)
                if not v:
                    for q in cg.get(p, ()):
                        if go(q, stack + (p,)):
                            v = True
                            break
            memo[p] = v
            return v
        return go
    dus = {}
    def du_of(b):
        if b.path not in dus:
            dus[b.path] = DefUse(b)
        return dus[b.path]
    alters = trans(lambda b: any(t.callee and t.callee.is_(*ALTER) for _, t in b.calls()))
    verdicts = trans(lambda b: any(is_eof_test(b, x, du_of(b)) for x in b.cfg.reachable))
    fills = trans(lambda b: b is refill)
    n2 = 0
    for b in bodies:
        if b is refill:
            continue
        A, V, F = set(), set(), set()
        for x in b.cfg.reachable:
            t = b.blocks[x].term
            if is_eof_test(b, x, du_of(b)):
                V.add(x)
            if t.k == 'call' and t.callee:
                cb = prog.local_callee_body(t.callee)
                if t.callee.is_(*ALTER) or (cb is not None and alters(cb.path)):
                    A.add(x)
                if cb is not None and fills(cb.path):
                    F.add(x)
                if cb is not None and verdicts(cb.path):
                    V.add(x)
        if not A:
            continue
        # (a) alter ... verdict without fill
        for a in sorted(A):
            # a block that alters and fills inside the same callee (A and F) is balanced by (b) in the callee
            start_removed = F - {a}
            if a in F:
                continue
            reach = b.cfg.reach_from(a, removed=start_removed)
            badv = sorted(v for v in V if v in reach and v != a)
            n2 += 1
            R.add('BUF-2', b, 'alter@%s->verdict' % describe_block(b, a), not badv, site(b, b.blocks[a].term.line),
                  'end-of-input verdict reachable after altering the buffer without a refill: %s' % [b.blocks[v].term.line for v in badv])
    R.floor('BUF-2', 8)
    # ---- LOOP-1
    n = 0
    for b in bodies:
        if b is refill:
            continue
        for h, L in b.cfg.natural_loops().items():
            A = [x for x in L if b.blocks[x].term.k == 'call' and b.blocks[x].term.callee and
                 (b.blocks[x].term.callee.is_(*ALTER) or
                  (prog.local_callee_body(b.blocks[x].term.callee) is not None and alters(prog.local_callee_body(b.blocks[x].term.callee).path)))]
            if not A:
                continue
            F = set(x for x in L if b.blocks[x].term.k == 'call' and prog.local_callee_body(b.blocks[x].term.callee) is not None
                    and fills(prog.local_callee_body(b.blocks[x].term.callee).path))
            # every cycle through an altering call passes a refill (calls that do both are
            # balanced inside the callee, see BUF-2)
            for a_ in sorted(A):
                if a_ in F:
                    continue
                reach = b.cfg.reach_from(a_, removed=F)
                n += 1
                R.add('LOOP-1', b, 'loop@%s' % describe_block(b, a_), a_ not in reach, site(b, b.blocks[a_].term.line),
                      'a cycle through this buffer-altering call avoids the refill: %s' % (a_ in reach))
    R.floor('LOOP-1', 5)


def describe_block(body, blk):
    t = body.blocks[blk].term
    if t.k == 'call' and t.callee:
        name = t.callee.target_path().split('::')[-1]
        # ordinal among calls of the same name in this body
        k = 0
        for x in sorted(body.cfg.reachable):
            tt = body.blocks[x].term
            if tt.k == 'call' and tt.callee and tt.callee.target_path().split('::')[-1] == name:
                k += 1
                if x == blk:
                    break
        return '%s#%d' % (name, k)
    return 'bb'


def ok_return_blocks(body):
    """blocks that assign an Ok(..)/Some(Ok)/() return value and fall through to `return`
    (error returns — Err aggregates, from_residual — are excluded); for functions returning
    neither Result nor Option every return counts."""
    ret_ty = body.local_tys[0]
    out = set()
    if not ('Result<' in ret_ty):
        return set(body.cfg.exits)
    for b in body.cfg.reachable:
        for s in body.blocks[b].stmts:
            if s.k == 'assign' and s.place.local == 0 and not s.place.proj and s.rv.k == 'agg' and s.rv.j.get('variant') in ('Ok',):
                out.add(b)
            if s.k == 'assign' and s.place.local == 0 and not s.place.proj and s.rv.k == 'agg' and s.rv.j.get('variant') == 'Some':
                # Some(Ok(..))
                ops = unwrap_aggs(body, s.rv.ops[0], [('adt', 'Ok')])
                if ops is not None:
                    out.add(b)
        t = body.blocks[b].term
        if t.k == 'call' and t.dest.local == 0 and t.callee and t.callee.path not in ('std::ops::FromResidual::from_residual',):
            pass
    return out
