"""ADV-1, MARK-1, FIND-1, CHAIN-1, VIEW-5: offset arithmetic of the hot paths, decided symbolically (scev.py).

These are the rules for the code the pinned tests already exercise well (the mutation survey shows the
tests kill slips here); they are stated as relations between functions, not as source shapes:

  ADV-1    advancing over a record moves the file position by exactly as many bytes as it moves the
           record start inside the buffer (the file offset of the buffer start is invariant)
  MARK-1   a marker error (invalid start / separator) is constructed exactly on the "differs from the
           marker" outcome of a comparison of the reported byte with the format's marker, and success
           on the "equals" outcome
  FIND-1   an offset found by memchr in `buffer[s..]` is re-based by adding the same `s`
  CHAIN-1  FASTQ: the four line starts are found in a chain (each search starts at the previous line
           start), and the fields the chain fills are the bounds the accessors slice with
  VIEW-5   FASTA sequence lines are cut between adjacent line-end offsets (offset i and i+1)
"""
from flow import *
from mir import roots_of, DefUse
from scev import pretty, Sym, Aff, Agg, Path, slice_range, linear_preds, preds_hold
from rules_fsm import _record_start_location, _rebase

SELF = ('self',)
BP = ('f', SELF, None, 'buf_pos')


class _PrettyR:
    def __init__(self, R):
        self._R = R

    def add(self, rule, body, instance, ok, where='', detail='', undecided=False):
        return self._R.add(rule, body, instance, ok, where, pretty(body, detail), undecided=undecided)

    def undecided(self, rule, body, instance, where='', detail=''):
        return self._R.undecided(rule, body, instance, where, pretty(body, detail))

    def __getattr__(self, k):
        return getattr(self._R, k)


def reader_bodies(prog, fmt):
    return [b for b in prog.bodies.values() if b.key.startswith('%s::Reader::' % fmt) and b.promoted_of is None and '{closure' not in b.key]


def self_init():
    p = Path()
    p.env[1] = Aff.sym(SELF)
    return p


def has_bp_sym(a):
    return any(s == BP or (isinstance(s, tuple) and BP in s) for s in a.syms()) if isinstance(a, Aff) else False


def run(prog, R):
    R = _PrettyR(R)
    adv_rules(prog, R)
    mark_rules(prog, R)
    find_rules(prog, R)
    chain_rules(prog, R)
    view5(prog, R)


# ------------------------------------------------------------------------------------------------ ADV-1
def adv_rules(prog, R):
    R.rule('ADV-1', 'advancing over a record adds to Position.byte exactly the amount by which it moves the record start inside the buffer (so the file offset of the buffer start stays what it was); solved symbolically on the straight-line region around the update')
    n = 0
    for fmt in ('fasta', 'fastq'):
        rloc = _record_start_location(prog, fmt)
        if rloc is None:
            R.anchor_missing('ADV-1', '%s::BufferPosition::reset assigns its argument to one field' % fmt)
            continue
        start_loc = _rebase(rloc, ('bp',), BP)
        byte_loc = ('f', ('f', SELF, None, 'position'), None, 'byte')
        for b in reader_bodies(prog, fmt):
            # blocks with a `position.byte = ...` statement whose increment is computed from stored buffer offsets
            sites = []
            for x in sorted(b.cfg.reachable):
                for st in b.blocks[x].stmts:
                    if st.k == 'assign' and st.place.local == 1 and [q['name'] for q in st.place.proj if q['k'] == 'field'] == ['position', 'byte']:
                        sites.append(x)
            for x in sorted(set(sites)):
                # start at the closest dominator from which the start update is also seen: try the block itself, then its dominators
                doms = [d for d in sorted(b.cfg.reachable) if b.cfg.dominates(d, x)]
                doms.sort(key=lambda d: -len([e for e in b.cfg.reachable if b.cfg.dominates(e, d)]))
                verdict = None
                for d0 in doms[:6]:
                    paths = Sym(prog, b, inline=True).run(d0, init=self_init())
                    got = []
                    for p in paths:
                        bw = [(blk, v) for (blk, loc, v) in p.writes if loc == byte_loc]
                        if not bw or not isinstance(bw[0][1], Aff):
                            continue
                        dbyte = bw[0][1] - Aff.sym(byte_loc)
                        if not has_bp_sym(dbyte):
                            got.append(('not-an-advance', None, None))
                            continue
                        sw = [v for (blk, loc, v) in p.writes if loc == start_loc]
                        if not sw:
                            got.append(('no-start-update', dbyte, None))
                            continue
                        got.append(('both', dbyte, sw[-1] - Aff.sym(start_loc) if isinstance(sw[-1], Aff) else None))
                    if any(g[0] == 'both' for g in got) or d0 == doms[min(5, len(doms) - 1)]:
                        verdict = got
                        break
                if not verdict or all(g[0] == 'not-an-advance' for g in verdict):
                    continue
                n += 1
                adv = [g for g in verdict if g[0] != 'not-an-advance']
                ok = bool(adv) and all(g[0] == 'both' and g[2] is not None and g[1] == g[2] for g in adv)
                g0 = adv[0]
                # the update of the record start is not visible (made through a destructured `&mut` or in a callee that is not
                # followed): not judged; a visible update by a different amount is a violation
                unseen = bool(adv) and all(g[0] != 'both' or g[2] is None for g in adv)
                R.add('ADV-1', b, 'file-position-moves-with-record-start', ok, site(b, b.blocks[x].stmts[0].line if b.blocks[x].stmts else b.span['lo']),
                      'Position.byte grows by %r, the record start in the buffer by %r' % (g0[1], g0[2]), undecided=(not ok) and unseen)
    R.floor('ADV-1', 2)


# ------------------------------------------------------------------------------------------------ MARK-1
MARKERS = {('fastq', 'InvalidStart'): 64, ('fastq', 'InvalidSep'): 43, ('fasta', 'InvalidStart'): 62}


def find_agg(v, variant):
    if isinstance(v, Agg):
        if v.variant == variant:
            return v
        for f in v.fields:
            r = find_agg(f, variant)
            if r is not None:
                return r
    return None


def mark_rules(prog, R):
    R.rule('MARK-1', 'InvalidStart / InvalidSep are constructed exactly when the reported byte compared unequal to the marker of the format ("@", "+", ">"), and a function that can raise them succeeds only when it compared equal')
    n = 0
    for fmt in ('fasta', 'fastq'):
        for b in reader_bodies(prog, fmt):
            variants = set(s.rv.j.get('variant') for blk in b.blocks for s in blk.stmts if s.k == 'assign' and s.rv.k == 'agg' and (fmt, s.rv.j.get('variant')) in MARKERS
                           and s.rv.j.get('adt', '').endswith('Error'))
            if not variants or b.cfg.natural_loops():
                continue
            paths = Sym(prog, b).run(0, init=self_init())
            for var in sorted(variants):
                marker = MARKERS[(fmt, var)]
                errp, okp = [], []
                for p in paths:
                    if p.end[0] != 'return':
                        continue
                    a = find_agg(p.env.get(0), var)
                    if a is not None:
                        errp.append((p, a))
                    elif isinstance(p.env.get(0), Agg) and p.env.get(0).variant == 'Ok':
                        okp.append(p)

                def outcome(p, val):
                    """'ne' / 'eq' / None: what the path conditions say about val vs. the marker"""
                    res = None
                    for (cx, d, taken) in p.conds:
                        if d == val:
                            # `match byte { b'@' => .., _ => .. }`: a switch on the byte itself
                            tg = [v for v, _ in b.blocks[cx].term.targets] if cx < len(b.blocks) and b.blocks[cx].term.k == 'switch' else []
                            if taken == marker:
                                res = 'eq'
                            elif taken is None and marker in tg:
                                res = 'ne'
                            continue
                        s1 = d.single() if isinstance(d, Aff) else None
                        if isinstance(s1, tuple) and s1[0] == 'cmp' and s1[1] in ('Eq', 'Ne'):
                            x, y = s1[2], s1[3]
                            if (x == val and y == Aff.const(marker)) or (y == val and x == Aff.const(marker)):
                                truth = taken is None or taken != 0
                                res = 'eq' if (s1[1] == 'Eq') == truth else 'ne'
                    return res
                bad = []
                vals = set()
                for p, a in errp:
                    found = None
                    # the reported byte: the u8 field of the variant
                    for fv in a.fields:
                        if isinstance(fv, Aff) and not fv.is_const() and outcome(p, fv) is not None:
                            found = fv
                    if found is None or outcome(p, found) != 'ne':
                        bad.append('error path without "byte != 0x%02x"' % marker)
                    else:
                        vals.add(found)
                for p in okp:
                    if vals and not any(outcome(p, v) == 'eq' for v in vals):
                        # only success paths that passed the comparison at all are constrained
                        if any(outcome(p, v) is not None for v in vals) or fmt == 'fastq':
                            bad.append('success path without "byte == 0x%02x"' % marker)
                n += 1
                # a function that only reports a defect found elsewhere has no comparison with the marker at all: not judged
                tests_here = any(any(v2 == marker for v2, _ in blk.term.targets) for blk in b.blocks if blk.term.k == 'switch') or any(
                    st.k == 'assign' and st.rv.k == 'bin' and st.rv.j['op'] in ('Eq', 'Ne') and any(o.const_int() == marker for o in st.rv.ops) for blk in b.blocks for st in blk.stmts)
                R.add('MARK-1', b, '%s-iff-byte-differs-from-marker' % var, bool(errp) and not bad, site(b, b.span['lo']),
                      '%d error paths, %d success paths, marker 0x%02x: %s' % (len(errp), len(okp), marker, sorted(set(bad)) or 'consistent'),
                      undecided=(bool(bad) and not tests_here) or not errp)
    R.floor('MARK-1', 3)


# ------------------------------------------------------------------------------------------------ FIND-1
def _vals(v):
    if isinstance(v, Aff):
        yield v
    elif isinstance(v, Agg):
        for f in v.fields:
            for x in _vals(f):
                yield x


def find_rules(prog, R):
    R.rule('FIND-1', 'an offset found by memchr in `buffer[s..]` is made a buffer offset by adding the very same `s` (and the needle is LF); a verdict is given only where the flow of the found offset is visible (a closure applied to it, a value computed from it, a loop item): a raw tail-relative offset that is returned or stored, or one re-based by something else, is a violation')
    for fmt in ('fasta', 'fastq'):
        for b in reader_bodies(prog, fmt):
            mc = [(x, t) for x, t in b.calls() if t.callee and (t.callee.is_('memchr::memchr') or 'Memchr' in t.callee.path and t.callee.name == 'new')]
            if not mc:
                continue
            loops = b.cfg.natural_loops()
            ev = Sym(prog, b)
            ent = ev.run(0, stops=set(loops), init=self_init())
            allp = ent if not loops else ent + [p for h in loops for p in ev.run(h, stops={h}, init=self_init())]
            for x, t in mc:
                S = None
                needle = None
                whole = False
                for p in allp:
                    for (bx, tt, a) in p.effects:
                        if tt is t and len(a) == 2:
                            needle = a[0]
                            hay = a[1]
                            if isinstance(hay, Aff) and isinstance(hay.single(), tuple) and hay.single()[0] == 'buffer':
                                whole = True
                            for (by, t2, a2) in p.effects:
                                if t2.callee and t2.callee.is_('std::ops::Index::index') and Aff.sym(('call', t2.callee.path, by)) == hay and isinstance(a2[1], Agg) and len(a2[1].fields) == 1:
                                    S = a2[1].fields[0]
                where = site(b, t.line)
                if needle is not None and needle != Aff.const(10) and (whole or S is not None):
                    R.add('FIND-1', b, 'needle-is-LF', False, where, 'memchr searches the reader buffer for %r' % (needle,))
                elif needle is not None and needle != Aff.const(10):
                    continue     # a search inside a line that was already cut (the space behind an id): not a line search
                if whole:
                    R.add('FIND-1', b, 'found-offset-rebased-by-slice-start', True, where, 'the whole buffer is searched: the found offset is a buffer offset as it is')
                    continue
                if S is None or not isinstance(S, Aff):
                    R.undecided('FIND-1', b, 'found-offset-rebased-by-slice-start', where, 'cannot see the start offset of the searched slice')
                    continue
                res = ('call', t.callee.path, x)
                P = [Aff.sym(('f', res, 'Some', '0'))]
                verdicts = []
                # (1) values computed from the found offset, judged against the slice start of the SAME path
                # (in a loop the start is a loop-carried value: entry path and iteration path name it differently)
                for p in allp:
                    Sp = None
                    for (bx, tt, a) in p.effects:
                        if tt is t and len(a) == 2:
                            for (by, t2, a2) in p.effects:
                                if t2.callee and t2.callee.is_('std::ops::Index::index') and Aff.sym(('call', t2.callee.path, by)) == a[1] and isinstance(a2[1], Agg) and len(a2[1].fields) == 1:
                                    Sp = a2[1].fields[0]
                    if Sp is None or not isinstance(Sp, Aff):
                        continue
                    for v in list(p.env.values()) + [v2 for (_, _, v2) in p.writes] + [a2 for (_, _, args) in p.effects for a2 in args]:
                        for a in _vals(v):
                            for ps in P:
                                k = ps.single()
                                if a.t.get(k) == 1:
                                    rest = a - ps
                                    base_ = rest - Aff.const(rest.c)
                                    # normalise to the representative S when this path's start is what was added
                                    verdicts.append((S if base_ == Sp else base_, rest.c, 'value %r (slice start %r)' % (a, Sp)))
                # (2) Option::map(closure): closure(capture, found) = capture + found + c
                for cb in prog.closures_of(b):
                    init = Path()
                    init.env[1] = Aff.sym(('env',))
                    init.env[2] = Aff.sym(('found',))
                    qs = [q for q in Sym(prog, cb).run(0, init=init) if q.end[0] == 'return']
                    if len(qs) == 1 and isinstance(qs[0].env.get(0), Aff) and qs[0].env[0].t.get(('found',)) == 1:
                        r = qs[0].env[0] - Aff.sym(('found',))
                        ups = [s2 for s2 in r.t if isinstance(s2, tuple) and s2[0] == 'f' and s2[1] == ('env',)]
                        par = None
                        for p in allp:
                            for (bx, tt, a) in p.effects:
                                for av in a:
                                    if isinstance(av, Agg) and av.kind == 'closure':
                                        par = av.fields
                        if len(r.t) == 0:
                            verdicts.append((Aff.const(0), r.c, 'closure returns found %+d' % r.c))
                        elif len(r.t) == 1 and len(ups) == 1 and r.t[ups[0]] == 1 and par is not None and len(par) == 1:
                            verdicts.append((par[0], r.c, 'closure adds its capture (= %r in the caller) %+d' % (par[0], r.c)))
                        else:
                            # the found offset is re-based by something that is not a plain capture of the slice start
                            verdicts.append((r - Aff.const(r.c), r.c, 'closure adds %r' % (r,)))
                # (3) a loop over Memchr: item re-based inside the loop (locals the loop does not change keep their entry value)
                for h in loops:
                    assigned = set(st.place.local for x2 in loops[h] for st in b.blocks[x2].stmts if st.k == 'assign' and not st.place.proj) | set(
                        b.blocks[x2].term.dest.local for x2 in loops[h] if b.blocks[x2].term.k == 'call' and b.blocks[x2].term.dest is not None and not b.blocks[x2].term.dest.proj)
                    entry_env = {}
                    for pe in ent:
                        if pe.end == ('stop', h):
                            entry_env = pe.env
                    init_h = self_init()
                    for l2, v2 in entry_env.items():
                        if isinstance(l2, int) and l2 not in assigned and isinstance(v2, Aff):
                            init_h.env[l2] = v2
                    for p in ev.run(h, stops={h}, init=init_h):
                        for l, v in p.env.items():
                            if isinstance(l, int) and isinstance(v, Aff):
                                items = [s2 for s2 in v.t if isinstance(s2, tuple) and s2[0] == 'f' and isinstance(s2[1], tuple) and s2[1][0] == 'call' and 'Iterator::next' in str(s2[1][1]) and v.t[s2] == 1]
                                if items:
                                    other = v - Aff.sym(items[0])
                                    verdicts.append((other - Aff.const(other.c), other.c, 'loop item re-based as %r' % (v,)))
                if not verdicts:
                    R.undecided('FIND-1', b, 'found-offset-rebased-by-slice-start', where, 'searched slice starts at %r; the use of the found offset is not visible to this rule' % (S,))
                    continue
                # the offsets that leave the function (returned / stored / passed on) must be re-based by S; raw ones used only locally are fine
                good = [v for v in verdicts if v[0] == S]
                bad = [v for v in verdicts if v[0] != S and not v[0].is_const()]
                raw = [v for v in verdicts if v[0].is_const() and v[0].c == 0]
                ok = bool(good) and not bad
                if not good and raw and not bad:
                    ok = False
                R.add('FIND-1', b, 'found-offset-rebased-by-slice-start', ok, where,
                      'searched slice starts at %r; %s' % (S, '; '.join(sorted(set(v[2] for v in (bad or good or raw))))[:300]))
                if any('closure' in v[2] or 'value' in v[2] for v in good) and not loops and str(b.local_tys[0]).replace(' ', '').endswith('Option<usize>'):
                    # the constant of the value that is handed out (the return place), or of the closure result
                    cs = set(v[1] for v in good if 'closure' in v[2])
                    for p in allp:
                        if p.end[0] == 'return':
                            for a in _vals(p.env.get(0)):
                                for ps in P:
                                    if a.t.get(ps.single()) == 1 and (a - ps - Aff.const((a - ps).c)) == S:
                                        cs.add((a - ps).c)
                    cs = sorted(cs)
                    if not cs:
                        continue
                    R.add('FIND-1', b, 'line-start-is-one-behind-the-terminator', cs == [1], where, 'the finder returns slice start + found %s (required + 1: the byte after the LF)' % cs)
    R.floor('FIND-1', 2)


# ------------------------------------------------------------------------------------------------ CHAIN-1
def chain_rules(prog, R):
    R.rule('CHAIN-1', 'FASTQ: every line-start search starts at the line start found before it (record start -> sequence -> separator -> quality -> end), the record end is the last line start minus the terminator that the advance adds back, and the fields filled by this chain are the bounds the head / seq / qual accessors slice with')
    rloc = _record_start_location(prog, 'fastq')
    acc = {}
    for nm in ('head', 'seq', 'qual'):
        bs = [b for b in prog.bodies.values() if b.key.endswith('fastq::BufferPosition::%s' % nm)]
        if len(bs) == 1:
            acc[nm] = slice_range(prog, bs[0], BP)
    if rloc is None or len(acc) != 3 or not all(acc.values()):
        R.anchor_missing('CHAIN-1', 'fastq::BufferPosition::{reset, head, seq, qual}')
        return
    start_loc = _rebase(rloc, ('bp',), BP)
    fl = [b for b in reader_bodies(prog, 'fastq') if any(t.callee and t.callee.is_('memchr::memchr') for _, t in b.calls())]
    # the line finder = the memchr user that some other reader function calls at least twice (other users of memchr are not this rule's business)
    fl = [f for f in fl if any(sum(1 for _, t in b.calls() if prog.local_callee_body(t.callee) is f) >= 2 for b in reader_bodies(prog, 'fastq'))]
    if len(fl) != 1:
        R.anchor_missing('CHAIN-1', 'the FASTQ line search (the function calling memchr that the record search calls once per line)')
        return
    finder = fl[0]
    users = [b for b in reader_bodies(prog, 'fastq') if sum(1 for _, t in b.calls() if prog.local_callee_body(t.callee) is finder) >= 2 and not b.cfg.natural_loops()]
    pred = {}
    order = None
    endc = None
    for b in users:
        paths = [p for p in Sym(prog, b).run(0, init=self_init()) if p.end[0] == 'return']
        # the complete chain: the path with the most searches that returns Ok(true)
        full = [p for p in paths if isinstance(p.env.get(0), Agg) and p.env[0].variant == 'Ok' and p.env[0].fields and p.env[0].fields[0] == Aff.const(1)]
        if not full:
            continue
        p = max(full, key=lambda q: sum(1 for (_, t, _) in q.effects if prog.local_callee_body(t.callee) is finder))
        calls = [(x, t, a) for (x, t, a) in p.effects if prog.local_callee_body(t.callee) is finder]
        if len(calls) != 4:
            continue
        # written field of each call: the location whose value is the call's Some payload (+ const)
        chain = []
        for (x, t, a) in calls:
            res = ('f', ('call', t.callee.path, x), 'Some', '0')
            w = [(loc, v) for (_, loc, v) in p.writes if isinstance(v, Aff) and v.t.get(res) == 1 and len(v.t) == 1]
            chain.append((a[1], w[-1] if w else None))
        if order is None:
            order = (b, chain)
    if order is None:
        R.anchor_missing('CHAIN-1', 'a function with the complete chain of four line searches')
        return
    b0, chain = order
    where = site(b0, b0.span['lo'])
    locs = [w[0] if w else None for (_, w) in chain]
    ok_written = all(w is not None for (_, w) in chain) and len(set(locs)) == 4
    R.add('CHAIN-1', b0, 'four-searches-fill-four-fields', ok_written, where, 'fields filled: %s' % [Aff.sym(l) if l else None for l in locs])
    if not ok_written:
        return
    prev = [start_loc] + locs[:3]
    okc = all(isinstance(a, Aff) and (a == Aff.sym(pv) or a == dict((l, v) for (l, v) in [(w[0], w[1]) for (_, w) in chain]).get(pv)) for (a, _), pv in zip(chain, prev))
    R.add('CHAIN-1', b0, 'each-search-starts-at-the-previous-line-start', okc, where,
          'search arguments %s, expected the values of %s' % ([a for (a, _) in chain], [Aff.sym(x) for x in prev]))
    for l, pv in zip(locs, prev):
        pred[l] = pv
    consts = [w[1].c for (_, w) in chain]
    # accessor consistency: head = [start+1 .. F1-1], seq = [F1 .. F2-1], qual = [F3 .. F4] with F4 = last line start - 1
    F = [Aff.sym(l) for l in locs]
    want = {'head': (Aff.sym(start_loc) + Aff.const(1), F[0] - Aff.const(1)), 'seq': (F[0], F[1] - Aff.const(1)), 'qual': (F[2], F[3])}
    oka = all(acc[k][0] == want[k][0] and acc[k][1] == want[k][1] for k in want) and consts == [0, 0, 0, -1]
    R.add('CHAIN-1', b0, 'accessors-slice-between-the-chain-fields', oka, where,
          'head %s, seq %s, qual %s; line starts stored with offsets %s (required: head=[start+1..F1-1], seq=[F1..F2-1], qual=[F3..F4], offsets [0,0,0,-1])' % (acc['head'], acc['seq'], acc['qual'], consts))
    # the advance restarts at the last line start: new record start = F4 - (offset F4 was stored with)
    def loc_names(loc):
        out = []
        while isinstance(loc, tuple) and loc[0] == 'f':
            out.append(loc[3])
            loc = loc[1]
        return list(reversed(out))
    names = loc_names(start_loc)
    nadv = 0
    for b in reader_bodies(prog, 'fastq'):
        for x in sorted(b.cfg.reachable):
            if not any(st.k == 'assign' and st.place.local == 1 and [q['name'] for q in st.place.proj if q['k'] == 'field'] == names for st in b.blocks[x].stmts):
                continue
            # (from the function entry when the function is small: the new start may be computed in an earlier block)
            small = len(b.cfg.reachable) <= 24 and not b.cfg.natural_loops()
            seen_v = set()
            for p in (Sym(prog, b).run(0, init=self_init()) if small else Sym(prog, b).run(x, stops=set(b.cfg.reachable) - {x}, init=self_init())):
                for (_, loc, v) in p.writes:
                    if loc == start_loc and isinstance(v, Aff) and v.t.get(locs[3]) == 1:
                        if repr(v) in seen_v:
                            continue
                        seen_v.add(repr(v))
                        nadv += 1
                        R.add('CHAIN-1', b, 'advance-restarts-at-the-last-line-start', v == F[3] - Aff.const(consts[3]), site(b, b.blocks[x].stmts[0].line),
                              'new record start %r; the record end was stored as (line start after the quality line) %+d' % (v, consts[3]))
    if nadv == 0:
        R.undecided('CHAIN-1', b0, 'advance-restarts-at-the-last-line-start', where, 'no assignment of the record start from the record end found in a form this rule follows: not judged')
    # every other user of the finder: each search starts at the predecessor of the field it fills
    for b in users:
        if b is b0:
            continue
        bad = []
        nsearch = 0
        for p in Sym(prog, b).run(0, init=self_init()):
            if p.end[0] != 'return':
                continue
            st = {}
            for (x, t, a) in p.effects:
                if prog.local_callee_body(t.callee) is not finder:
                    continue
                nsearch += 1
                res = ('f', ('call', t.callee.path, x), 'Some', '0')
                w = [(loc, v) for (_, loc, v) in p.writes if isinstance(v, Aff) and v.t.get(res) == 1 and len(v.t) == 1]
                if not w:
                    continue    # the search failed on this path
                loc, v = w[-1]
                if loc not in pred:
                    bad.append('search result stored in %r' % (Aff.sym(loc),))
                    continue
                exp = st.get(pred[loc], Aff.sym(pred[loc]))
                if a[1] != exp:
                    bad.append('%r searched from %r instead of %r' % (Aff.sym(loc), a[1], exp))
                if v.c != (consts[locs.index(loc)]):
                    bad.append('%r stored with offset %d' % (Aff.sym(loc), v.c))
                st[loc] = v
        R.add('CHAIN-1', b, 'each-search-starts-at-the-previous-line-start', not bad and nsearch > 0, site(b, b.span['lo']), '; '.join(sorted(set(bad))) or 'consistent with the chain of %s' % b0.key)
    R.floor('CHAIN-1', 5)


# ------------------------------------------------------------------------------------------------ VIEW-5
def view5(prog, R):
    R.rule('VIEW-5', 'FASTA sequence lines are cut between ADJACENT line-end offsets: where the offsets are zipped with themselves shifted, the shift is exactly one; where they are taken through slice::windows, the window has two elements (no instance - and no verdict - if neither idiom is used: ITER-2 / VIEW-1 then carry the property alone)')
    for b in prog.bodies.values():
        if not b.file.endswith('fasta.rs') or b.promoted_of is not None:
            continue
        du = None
        for x, t in b.calls():
            if t.callee and t.callee.is_('std::iter::Iterator::skip') and len(t.args) == 2:
                zips = [tt for _, tt in b.calls() if tt.callee and tt.callee.is_('std::iter::Iterator::zip')]
                if not zips:
                    continue
                du = du or DefUse(b)
                c = resolve_const_operand(b, t.args[1], du)
                R.add('VIEW-5', b, 'lines-between-adjacent-offsets', bool(c) and c[0] == 'int' and c[1] == 1, site(b, t.line), 'offsets zipped with themselves skipped by %s' % (c[1] if c else '?'))
            if t.callee and t.callee.is_('core::slice::windows') and len(t.args) == 2 and 'SeqLines' in ' '.join(b.local_tys[:1] + [b.key]):
                du = du or DefUse(b)
                c = resolve_const_operand(b, t.args[1], du)
                R.add('VIEW-5', b, 'lines-between-adjacent-offsets', bool(c) and c[0] == 'int' and c[1] == 2, site(b, t.line), 'windows of %s offsets' % (c[1] if c else '?'))
