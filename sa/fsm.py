"""E4 — finite-domain abstract interpreter over MIR and most-general client.

Tracks, for one reader format: the `state` field (enum tag), the tag of fastq's
`incomplete_pos`, booleans, Option/Result/ControlFlow tags with payloads, error classes
(format / io / limit), and ghost variables
    complete : a record has been located and not yet advanced over
    setc     : 'old' | 0 | 1   record-set positions: untouched / emptied / >=1 pushed in this call
    dirty    : positions changed since the bytes were last copied into the set
Crate-internal `&mut self` callees are interpreted (memoised relational summaries); everything
else is havoc by type.  Offsets and lengths are not tracked.
"""
from collections import defaultdict
from mir import roots_of, DefUse, Place, Operand, strip_generics
from rules_par import find_call

TOP = ('top',)
UNIT = ('unit',)


def assigns_record_end(b):
    return any(s.k == 'assign' and [p['name'] for p in s.place.proj if p['k'] == 'field'] == ['buf_pos', 'pos', '1'] and not (s.rv.k == 'use' and s.rv.ops[0].is_const)
               for blk in b.blocks if blk.idx in b.cfg.rset for s in blk.stmts)


def validator_set(prog, fmt='fastq'):
    """paths of the reader functions that count as "the validator": the one constructing the UnequalLengths error and every
    reader function that reaches it without (itself or through its callees) completing a record - `validate` -> `invalid(..)`.
    None when there is not exactly one constructing function."""
    pre = '%s::Reader::' % fmt
    vals = [b for b in prog.bodies.values() if b.key.startswith(pre) and b.promoted_of is None and any(
        s.k == 'assign' and s.rv.k == 'agg' and s.rv.j.get('variant') == 'UnequalLengths' for blk in b.blocks for s in blk.stmts)]
    # constructed inside a closure (`.map_err(|(seq, qual)| Error::UnequalLengths { .. })`): the function the closure belongs to
    parents = []
    for b in vals:
        if '{closure' in b.key:
            par = [q for q in prog.bodies.values() if q.key == b.key.split('::{closure')[0] and q.promoted_of is None]
            parents += par or [b]
        else:
            parents.append(b)
    vals = list({id(b): b for b in parents}.values())
    if len(vals) != 1:
        return None
    memo = {}

    def completes(b, stack=()):
        if b.path in memo:
            return memo[b.path]
        if b.path in stack:
            return False
        r = assigns_record_end(b) or any(prog.local_callee_body(t.callee) is not None and prog.local_callee_body(t.callee).key.startswith(pre) and
                                         completes(prog.local_callee_body(t.callee), stack + (b.path,)) for _, t in b.calls())
        if not stack:
            memo[b.path] = r
        return r
    vset = {vals[0].path}
    grew = True
    while grew:
        grew = False
        for b in prog.bodies.values():
            if b.key.startswith(pre) and b.path not in vset and '{closure' not in b.key and not completes(b) and any(
                    prog.local_callee_body(t.callee) is not None and prog.local_callee_body(t.callee).path in vset for _, t in b.calls()):
                vset.add(b.path)
                grew = True
    return vset


def B(v):
    return ('b', v)


def E(adt, variant, *payload):
    return ('e', adt, variant, tuple(payload))


STD_VARIANTS = {
    'Option': ['None', 'Some'],
    'Result': ['Ok', 'Err'],
    'ControlFlow': ['Continue', 'Break'],
}


def short_adt(path):
    p = strip_generics(path)
    for k in ('Option', 'Result', 'ControlFlow'):
        if p.endswith('::' + k):
            return k
    return p


class Heap(dict):
    def freeze(self):
        return tuple(sorted(self.items()))

    def copy(self):
        return Heap(self)


class Interp:
    def __init__(self, prog, fmt):
        self.prog = prog
        self.fmt = fmt
        self.reader = '%s::Reader' % fmt
        self.err_adt = '%s::Error' % fmt
        self.variants = dict(STD_VARIANTS)
        for path, adt in prog.adts.items():
            if adt['kind'] == 'enum':
                self.variants[path] = [v['name'] for v in adt['variants']]
        self.memo = {}
        self.in_progress = set()
        self.violations = []          # (rule, fn key, instance, site, detail)
        self.events = defaultdict(int)
        self.advance_stmts = set()
        self.advance = self._find_advance()
        self.locate = self._find_locate()
        self.imprecise = set()
        if not self.advance or not self.locate:
            self.imprecise.add('the roles of the reader functions were not recognised (advance over a record: %s; search reporting "a record is located" as Result<bool>: %s)' % (
                sorted(self.advance) or 'none', sorted(self.locate) or 'none'))
        if self.roles_gap:
            self.imprecise.add('the suspendable search %s is called by a reading operation directly, not through a function returning Result<bool> ("a record is located")' % ', '.join(sorted(set(self.roles_gap))))
        self._closure_bodies = None
        self.full_cmps = {}
        self.full_ids = {}
        # the logical record count of the set: its usize field, whatever it is called
        _adt = prog.adts.get('%s::RecordSet' % fmt)
        _cnt = [fd['name'] for fd in _adt['variants'][0]['fields'] if fd['ty'].strip() == 'usize'] if _adt else []
        self.count_field = _cnt[0] if len(_cnt) == 1 else 'npos'
        self.validators = validator_set(prog, fmt) or set()
        self.n_steps = 0
        self.call_ctx = []
        self.ret_trace = {}
        self.track_writes = False
        import rules_err as _re
        self.refills = set(b.path for b in _re.refill_family(prog))
        self.eof_tests = {}

    # ------------------------------------------------------------------ roles
    def _reader_bodies(self):
        return [b for b in self.prog.bodies.values() if b.key.startswith(self.reader + '::')]

    def _find_advance(self):
        """the function that advances over a record: it adds to Position::byte an extent computed
        from (at least two) stored buffer offsets of the reader (record end - record start)"""
        from mir import data_deps
        out = []
        for b in self._reader_bodies():
            for blk in b.blocks:
                for s in blk.stmts:
                    direct = s.k == 'assign' and [p['name'] for p in s.place.proj if p['k'] == 'field'] == ['position', 'byte']
                    # ... or into a temporary that becomes the new position (`self.position = Position::new(line + 4, byte + extent)`)
                    if s.k == 'assign' and s.rv.k == 'bin' and s.rv.j['op'].startswith('Add') and (direct or s.place.is_local()):
                        ops = s.rv.ops

                        def reads_pos_byte(o):
                            if o.is_const:
                                return False
                            if [p['name'] for p in o.place.proj if p['k'] == 'field'] == ['position', 'byte']:
                                return True
                            rs = roots_of(b, o)
                            return bool(rs) and all(r[0] == 'arg' and r[1] == 1 and tuple(q[1] for q in r[-1]) == ('position', 'byte') for r in rs)
                        selfop = [o for o in ops if reads_pos_byte(o)]
                        other = [o for o in ops if o not in selfop]
                        if not selfop or not other:
                            continue
                        fields = set()
                        diff = False
                        for r in data_deps(b, other[0]):
                            if r[0] == 'arg' and r[1] == 1 and r[-1]:
                                fields.add(tuple(q[1] for q in r[-1]))
                            if r[0] == 'bin' and getattr(r[1], 'rv', None) is not None and r[1].rv.j.get('op', '').startswith('Sub'):
                                diff = True
                        fields = set(f for f in fields if f[0] in ('buf_pos', 'search_pos'))
                        # (a difference of offsets one of which the flow-insensitive provenance resolves to a later store of the
                        # same field - `let n = next - cur.start; cur.start = next;` - shows only one field)
                        if len(fields) >= 2 or (len(fields) >= 1 and diff):
                            out.append(b)
                            self.advance_stmts.add(id(s))
        return set(x.path for x in out)

    def _find_locate(self):
        cg = self.prog.call_graph()
        memo = {}

        def searches(p, stack=()):
            if p in memo:
                return memo[p]
            if p in stack:
                return False
            b = self.prog.bodies.get(p)
            v = False
            if b is not None:
                for _, t in b.calls():
                    if t.callee and t.callee.target_path().startswith('memchr::'):
                        v = True
                if not v:
                    v = any(searches(q, stack + (p,)) for q in cg.get(p, ()))
            memo[p] = v
            return v
        # ... and that do not themselves advance over records (a helper that searches AND advances - e.g. the loop of
        # a record-set read moved into its own function - reports "something was found", not "a record is located")
        adv_memo = {}

        def advances(p, stack=()):
            if p in adv_memo:
                return adv_memo[p]
            if p in stack:
                return False
            v = p in self.advance or any(advances(q, stack + (p,)) for q in cg.get(p, ()))
            adv_memo[p] = v
            return v
        # ... and that can suspend the search of a record (they, or what they call, record the "incomplete" marker:
        # State::Incomplete / incomplete_pos = Some(..)).  The scan for the first record start (init) reads the
        # buffer too but never suspends: its `true` means "there is input", not "a record is located".
        inc_memo = {}

        def suspends(p, stack=()):
            if p in inc_memo:
                return inc_memo[p]
            if p in stack:
                return False
            b = self.prog.bodies.get(p)
            v = False
            if b is not None:
                for blk in b.blocks:
                    for st in blk.stmts:
                        if st.k != 'assign':
                            continue
                        names = [q['name'] for q in st.place.proj if q['k'] == 'field']
                        if st.rv.k == 'agg' and st.rv.j.get('variant') == 'Incomplete':
                            v = True
                        if names[-1:] == ['incomplete_pos'] or (st.rv.k == 'agg' and st.rv.j.get('variant') == 'Some' and 'RecordPos' in str(b.local_tys[st.place.local] if st.place.is_local() else '')):
                            v = True
                if not v:
                    v = any(suspends(q, stack + (p,)) for q in cg.get(p, ()))
            inc_memo[p] = v
            return v
        out = set()
        for b in self._reader_bodies():
            ret = b.local_tys[0]
            if ret.startswith('std::result::Result<bool, %s' % self.err_adt) and searches(b.path) and not advances(b.path) and suspends(b.path):
                out.add(b.path)
        # the roles are only established when every search that can be suspended is reached from the reading operations through
        # a member of this family (whose `Ok(true)` is what "a record is located" means to the abstraction).  A suspending search
        # that an entry point calls directly (`self.search_from(Head)? -> Option<part>`) reports its outcome in a form the ghost
        # does not follow.
        self.roles_gap = []
        for entry in ('next', 'read_record_set_exact'):
            eb = [b for b in self._reader_bodies() if b.key == '%s::%s' % (self.reader, entry)]
            seen = set()
            work = [b.path for b in eb]
            while work:
                p = work.pop()
                if p in seen:
                    continue
                seen.add(p)
                for q in cg.get(p, ()):
                    qb = self.prog.bodies.get(q)
                    if qb is None or q in out or not qb.key.startswith(self.reader + '::'):
                        continue
                    if searches(q) and suspends(q) and not advances(q) and not any(r in out for r in cg.get(q, ())):
                        # a search that suspends, outside the family and not a mere wrapper of a member of it
                        direct = any(t.callee and t.callee.target_path().startswith('memchr::') for _, t in qb.calls()) or not any(
                            searches(r) and suspends(r) for r in cg.get(q, ()))
                        if direct or True:
                            self.roles_gap.append(qb.key)
                            continue
                    work.append(q)
        return out

    def fresh_bool(self, rv):
        """an unknown boolean with the identity of the expression that produced it (stable across loop iterations):
        copies of it are refined together when one of them is branched on"""
        return ('b?', id(rv), False)

    # ------------------------------------------------------------------ values
    def variant_index(self, adt, variant):
        vs = self.variants.get(adt)
        if vs and variant in vs:
            return vs.index(variant)
        return None

    def variant_name(self, adt, idx):
        vs = self.variants.get(adt)
        if vs and 0 <= idx < len(vs):
            return vs[idx]
        return None

    def havoc(self, ty):
        """abstract values a result of type `ty` may have (list: the caller forks)"""
        t = ty.strip()
        if t == 'bool':
            return [B(True), B(False)]
        if t == '()':
            return [UNIT]
        if t.startswith('std::result::Result<'):
            ok, err = split_two(t[len('std::result::Result<'):-1])
            errv = self.err_class_of_type(err)
            oks = self.havoc(ok) if ok == 'bool' else [TOP if ok != '()' else UNIT]
            return [E('Result', 'Ok', o) for o in oks] + [E('Result', 'Err', errv)]
        if t.startswith('std::option::Option<'):
            inner = t[len('std::option::Option<'):-1]
            return [E('Option', 'None'), E('Option', 'Some', TOP)]
        return [TOP]

    def err_class_of_type(self, t):
        if 'std::io::Error' in t:
            return ('err', 'io')
        return ('err', '?')

    # ------------------------------------------------------------------ function interpretation
    def run_fn(self, body, heap, args):
        """-> list of (retval, Heap).  args: list of abstract values for params 1.."""
        key = (body.path, heap.freeze(), tuple(args))
        if key in self.memo:
            return [(r, Heap(dict(h))) for r, h in self.memo[key]]
        if key in self.in_progress:
            return []
        self.in_progress.add(key)
        results = set()
        store0 = {}
        for i, a in enumerate(args):
            store0[i + 1] = a
        work = [(0, freeze_store(store0), heap.freeze())]
        seen = set()
        parent = {}
        self.call_ctx.append([body, parent, None])
        while work:
            item = work.pop()
            if item in seen:
                continue
            seen.add(item)
            self.call_ctx[-1][2] = item
            self.n_steps += 1
            if self.n_steps > 2000000:
                raise RuntimeError('FSM step budget exceeded')
            blk, st, hp = item
            for (nxt, st2, hp2) in self.exec_block(body, blk, dict(st), Heap(dict(hp))):
                if nxt == 'ret':
                    results.add((st2.get(0, TOP), hp2.freeze()))
                    self.ret_trace[(key, st2.get(0, TOP), hp2.freeze())] = self.path_of(parent, item)
                elif nxt is not None:
                    ni = (nxt, freeze_store(st2), hp2.freeze())
                    if ni not in seen and ni not in parent:
                        parent[ni] = item
                    work.append(ni)
        self.call_ctx.pop()
        self.in_progress.discard(key)
        self.memo[key] = list(results)
        return [(r, Heap(dict(h))) for r, h in results]

    # ---- places
    def read_place(self, body, pl, store, heap):
        v = store.get(pl.local, TOP)
        ctx = None   # None | ('self', path) | ('rset', path): set when a reference into self / the set is dereferenced
        pend_variant = None
        first = True
        for p in pl.proj:
            k = p['k']
            if k == 'deref':
                if ctx is not None:
                    continue
                if v == ('rself',):
                    ctx = ('self', ())
                    continue
                if v == ('rset',):
                    ctx = ('rset', ())
                    continue
                if isinstance(v, tuple) and v and v[0] == 'rselfp':
                    ctx = ('self', v[1])
                    continue
                if isinstance(v, tuple) and v and v[0] == 'rsetp':
                    ctx = ('rset', v[1])
                    continue
                if isinstance(v, tuple) and v and v[0] == 'rlocal':
                    v = store.get(v[1], TOP)
                elif isinstance(v, tuple) and v and v[0] == 'rval':
                    v = v[1]
                elif isinstance(v, tuple) and v and v[0] in ('readerbuf', 'readerbuf-part'):
                    pass
                else:
                    v = v if (isinstance(v, tuple) and v and v[0] in ('e', 'b', 'err', 'cnt', 'int', 'tuple')) else TOP
            elif k == 'field':
                if ctx is not None:
                    ctx = (ctx[0], ctx[1] + (p['name'],))
                    continue
                if isinstance(v, tuple) and v and v[0] == 'e':
                    if pend_variant is not None and v[2] != pend_variant:
                        v = TOP
                    else:
                        v = v[3][p['i']] if p['i'] < len(v[3]) else TOP
                    pend_variant = None
                elif isinstance(v, tuple) and v and v[0] == 'tuple':
                    v = v[1][p['i']] if p['i'] < len(v[1]) else TOP
                else:
                    v = TOP
            elif k == 'downcast':
                pend_variant = p['variant']
            else:
                if ctx is not None:
                    ctx = (ctx[0], ctx[1] + ('[]',))
                else:
                    v = TOP
        if ctx is not None:
            return self.read_ctx(ctx, heap)
        return v

    def read_ctx(self, ctx, heap):
        kind, path = ctx
        if kind == 'self':
            if path == ():
                return ('rself',)
            if path == ('state',):
                return E('%s::State' % self.fmt, heap['state'])
            if path == ('incomplete_pos',):
                return E('Option', 'Some', TOP) if heap.get('inc') == 'Some' else E('Option', 'None')
            return ('selfval', path)
        else:
            if path == ():
                return ('rset',)
            if path and path[-1] == self.count_field:
                return ('cnt', heap['setc'])
            return ('rsetval', path)

    def ref_place(self, body, pl, store, heap):
        """value of `&place`"""
        v = store.get(pl.local, TOP)
        if v == ('rself',) or (isinstance(v, tuple) and v and v[0] == 'rselfp'):
            base = () if v == ('rself',) else v[1]
            path = base + tuple(p['name'] for p in pl.proj if p['k'] == 'field')
            return ('rself',) if not path else ('rselfp', path)
        if v == ('rset',) or (isinstance(v, tuple) and v and v[0] == 'rsetp'):
            base = () if v == ('rset',) else v[1]
            path = base + tuple(p['name'] for p in pl.proj if p['k'] == 'field')
            return ('rset',) if not path else ('rsetp', path)
        if not pl.proj:
            return ('rlocal', pl.local)
        if all(p['k'] == 'deref' for p in pl.proj) and isinstance(v, tuple) and v and v[0] in ('rlocal', 'rval', 'readerbuf', 'readerbuf-part'):
            return v
        # reference to a projection of a local value: keep the value itself when it is an enum payload
        val = self.read_place(body, pl, store, heap)
        return ('rval', val)

    def deref_val(self, v, store, heap):
        if isinstance(v, tuple) and v:
            if v[0] == 'rlocal':
                return store.get(v[1], TOP)
            if v[0] == 'rval':
                return v[1]
            if v[0] == 'rselfp':
                return self.read_ctx(('self', v[1]), heap)
            if v[0] == 'rsetp':
                return self.read_ctx(('rset', v[1]), heap)
        return v

    def write_place(self, body, pl, val, store, heap, stmt=None):
        base = store.get(pl.local, TOP)
        proj = pl.proj
        # a write through a captured reference of a closure (`(*(_1.0)).state = ..`): walk to the reference
        if isinstance(base, tuple) and base and (base[0] == 'tuple' or (base[0] == 'rval' and isinstance(base[1], tuple) and base[1][:1] == ('tuple',))):
            v = base
            i = 0
            while i < len(proj) and isinstance(v, tuple) and v and v[0] in ('tuple', 'rval'):
                q = proj[i]
                if q['k'] == 'deref' and v[0] == 'rval':
                    v = v[1]
                elif q['k'] == 'field' and v[0] == 'tuple' and q['i'] < len(v[1]):
                    v = v[1][q['i']]
                else:
                    break
                i += 1
            if isinstance(v, tuple) and v and v[0] in ('rself', 'rselfp', 'rset', 'rsetp'):
                base = v
                proj = proj[i:]

        class _P:
            pass
        if proj is not pl.proj:
            pl2 = _P()
            pl2.proj = proj
            pl2.local = pl.local
            pl = pl2
        ctx = None
        if base == ('rself',):
            ctx = ('self', ())
        elif base == ('rset',):
            ctx = ('rset', ())
        elif isinstance(base, tuple) and base and base[0] == 'rselfp':
            ctx = ('self', base[1])
        elif isinstance(base, tuple) and base and base[0] == 'rsetp':
            ctx = ('rset', base[1])
        if ctx is not None and pl.proj:
            path = ctx[1] + tuple(p['name'] for p in pl.proj if p['k'] == 'field')
            if ctx[0] == 'self':
                if self.validators and path == ('buf_pos', 'pos', '1') and stmt is not None and not (stmt.rv.k == 'use' and stmt.rv.ops[0].is_const) and not (
                        stmt.rv.k == 'bin' and not stmt.rv.ops[0].is_const and [q['name'] for q in stmt.rv.ops[0].place.proj if q['k'] == 'field'][-2:] == ['pos', '1']):
                    heap['endset'] = True        # the end offset of the record: a record is being completed (not: shifted)
                    heap['validated'] = False
                if path == ('state',):
                    if isinstance(val, tuple) and val[0] == 'e':
                        heap['state'] = val[2]
                    else:
                        heap['state'] = '?'
                elif path == ('incomplete_pos',):
                    if isinstance(val, tuple) and val[0] == 'e' and val[1] == 'Option':
                        heap['inc'] = val[2]
                        if self.track_writes:
                            pv = val[3][0] if val[2] == 'Some' and val[3] else None
                            heap['incv'] = pv[2] if isinstance(pv, tuple) and pv and pv[0] == 'e' else ('-' if val[2] == 'None' else '?')
                    else:
                        heap['inc'] = '?'
                elif self.track_writes and path and path[0] == 'buf_pos':
                    kind = 'set'
                    if stmt is not None and stmt.rv.k == 'bin' and stmt.rv.j['op'].startswith('Sub'):
                        kind = 'shift'
                    elif stmt is not None and stmt.rv.k == 'use' and stmt.rv.ops[0].is_const and stmt.rv.ops[0].const_int() == 0:
                        kind = 'zero'
                    w = set(heap.get('w', ()))
                    w.add(('.'.join(path[1:]), kind))
                    heap['w'] = tuple(sorted(w))
            else:
                if path and path[-1] == self.count_field:
                    if isinstance(val, tuple) and val == ('int', 0):
                        heap['setc'] = 0
                        heap['dirty'] = True
                    else:
                        if heap.get('setc') == 'old':
                            self.violate_at('FSM-S4', body, stmt.line if stmt is not None else None, 'push-before-old-batch-cleared',
                                            'the record count of the set is increased before the previous batch was cleared', heap)
                        heap['setc'] = 1
                        heap['dirty'] = True
                        heap['pushed'] = True
            return
        if not pl.proj:
            store[pl.local] = val
            return
        # write through a local reference / into a field of a local: weak update -> unknown
        if isinstance(base, tuple) and base and base[0] == 'rlocal' and all(p['k'] == 'deref' for p in pl.proj):
            store[base[1]] = val
            return
        cur = store.get(pl.local, TOP)
        if isinstance(cur, tuple) and cur and cur[0] == 'e':
            store[pl.local] = TOP

    # ---- operands / rvalues
    def eval_op(self, body, op, store, heap):
        if op.is_const:
            ci = op.const_int()
            ty = op.j.get('ty', '')
            if ty == 'bool' and ci is not None:
                return B(bool(ci))
            if 'promoted' in op.j:
                return ('promoted', op.j['promoted'])
            if ci is not None:
                return ('int', ci)
            if ty == '()':
                return UNIT
            return TOP
        return self.read_place(body, op.place, store, heap)

    def eval_promoted(self, body, idx):
        if idx >= len(body.promoted):
            return TOP
        pb = body.promoted[idx]
        st = {}
        for blk in pb.blocks:
            for s in blk.stmts:
                if s.k == 'assign' and s.rv.k == 'agg' and s.rv.j.get('agg') == 'adt' and not s.place.proj:
                    st[s.place.local] = E(short_adt(s.rv.j['adt']), s.rv.j['variant'])
                elif s.k == 'assign' and s.rv.k == 'ref' and not s.place.proj:
                    st[s.place.local] = ('rval', st.get(s.rv.place.local, TOP))
                elif s.k == 'assign' and s.rv.k == 'use' and s.rv.ops[0].is_const and not s.place.proj:
                    ci = s.rv.ops[0].const_int()
                    st[s.place.local] = ('int', ci) if ci is not None else TOP
        return st.get(0, TOP)

    def eval_rvalue(self, body, s, store, heap):
        rv = s.rv
        k = rv.k
        if k == 'use':
            v = self.eval_op(body, rv.ops[0], store, heap)
            if isinstance(v, tuple) and v and v[0] == 'promoted':
                v = self.eval_promoted(body, v[1])
            return v
        if k == 'ref' or k == 'rawptr':
            return self.ref_place(body, rv.place, store, heap)
        if k == 'discr':
            v = self.read_place(body, rv.place, store, heap)
            if isinstance(v, tuple) and v and v[0] == 'e':
                idx = self.variant_index(v[1], v[2])
                if idx is not None:
                    return ('int', idx)
            return ('disc', v)
        if k == 'agg':
            a = rv.j.get('agg')
            if a == 'adt':
                adt = short_adt(rv.j['adt'])
                payload = [self.eval_op(body, o, store, heap) for o in rv.ops]
                if adt == self.err_adt:
                    v = rv.j['variant']
                    cls = 'io' if v == 'Io' else 'limit' if v == 'BufferLimit' else 'format'
                    return ('err', cls)
                if adt in self.variants:
                    return E(adt, rv.j['variant'], *payload)
                if any(isinstance(pv, tuple) and pv and pv[0] in ('rset', 'rsetp') for pv in payload) and body.key.startswith(self.reader.rsplit('::', 1)[0] + '::'):
                    # the record set is wrapped into a private object (`SetFill { rset, .. }`) whose methods fill it: not followed
                    self.imprecise.add('the record set is handed to a private object (%s) that fills it' % adt)
                return ('struct', adt)
            if a == 'tuple':
                if not rv.ops:
                    return UNIT
                return ('tuple', tuple(self.eval_op(body, o, store, heap) for o in rv.ops))
            if rv.j.get('closure'):
                ups = []
                for o in rv.ops:
                    v = self.eval_op(body, o, store, heap)
                    if isinstance(v, tuple) and v and v[0] == 'rlocal':
                        v = ('rval', store.get(v[1], TOP))     # a captured local of the enclosing frame: by (snapshot) value
                    ups.append(v)
                return ('closure', rv.j['closure'], tuple(ups))
            return TOP
        if k == 'bin':
            if rv.j['op'] in ('Lt', 'Le', 'Gt', 'Ge', 'Eq', 'Ne'):
                fc = self.full_cmp(body, s)
                if fc is not None:
                    self.full_ids[id(rv)] = fc[0]
                    return self.fresh_bool(rv)
            a = self.eval_op(body, rv.ops[0], store, heap)
            c = self.eval_op(body, rv.ops[1], store, heap)
            op = rv.j['op']
            if op in ('Eq', 'Ne'):
                r = None
                if a[0] == 'int' and c[0] == 'int':
                    r = a[1] == c[1]
                elif a[0] == 'b' and c[0] == 'b':
                    r = a[1] == c[1]
                elif a[0] == 'cnt' and c == ('int', 0) and a[1] in (0, 1):
                    r = a[1] == 0
                elif c[0] == 'cnt' and a == ('int', 0) and c[1] in (0, 1):
                    r = c[1] == 0
                elif (a == ('cnt', 0) and (c == ('ge1',) or (c[0] == 'int' and c[1] >= 1))) or (c == ('cnt', 0) and (a == ('ge1',) or (a[0] == 'int' and a[1] >= 1))):
                    r = False
                if r is None:
                    return self.fresh_bool(rv)
                return B(r if op == 'Eq' else not r)
            if op in ('Lt', 'Le', 'Gt', 'Ge', 'Eq', 'Ne') and ((a[0] == 'cnt' and c == TOP) or (c[0] == 'cnt' and a == TOP)):
                # the number of records in the set is compared with a bound this abstraction cannot evaluate
                # (e.g. `n_records.map_or(1, |n| n.max(1))`): whether the set may be left empty is not decidable here
                self.imprecise.add('%s compares the record count of the set with a computed bound' % body.key)
            if op in ('Lt', 'Le', 'Gt', 'Ge'):
                if a[0] == 'int' and c[0] == 'int':
                    return B({'Lt': a[1] < c[1], 'Le': a[1] <= c[1], 'Gt': a[1] > c[1], 'Ge': a[1] >= c[1]}[op])
                # an empty set (count 0) against a requested count (>= 1 by the API precondition)
                def ge1(v):
                    return v == ('ge1',) or (v[0] == 'int' and v[1] >= 1)
                if a == ('cnt', 0) and ge1(c):
                    return B({'Lt': True, 'Le': True, 'Gt': False, 'Ge': False}[op])
                if c == ('cnt', 0) and ge1(a):
                    return B({'Lt': False, 'Le': False, 'Gt': True, 'Ge': True}[op])
                # counts as intervals: cnt 0 = [0,0], cnt 1 = [1,inf), requested count = [1,inf), literals exact
                def itv(v):
                    if v[0] == 'int':
                        return (v[1], v[1])
                    if v == ('cnt', 0):
                        return (0, 0)
                    if v == ('cnt', 1) or v == ('ge1',):
                        return (1, None)
                    return None
                ia, ic = itv(a), itv(c)
                if ia is not None and ic is not None:
                    def lt(x, y):      # x < y for all members?  True / False / None
                        if x[1] is not None and x[1] < y[0]:
                            return True
                        if y[1] is not None and x[0] >= y[1]:
                            return False
                        return None
                    def le(x, y):
                        if x[1] is not None and x[1] <= y[0]:
                            return True
                        if y[1] is not None and x[0] > y[1]:
                            return False
                        return None
                    r = {'Lt': lt(ia, ic), 'Le': le(ia, ic), 'Gt': lt(ic, ia), 'Ge': le(ic, ia)}[op]
                    if r is not None:
                        return B(r)
                return self.fresh_bool(rv)
            if op.startswith('Add') and (a[0] == 'cnt' or c[0] == 'cnt'):
                return ('cnt', 1)
            return TOP
        if k == 'un':
            a = self.eval_op(body, rv.ops[0], store, heap)
            if rv.j['op'] == 'Not' and a[0] == 'b':
                return B(not a[1])
            if rv.j['op'] == 'Not' and a[0] == 'b?':
                return ('b?', a[1] if len(a) > 1 else None, not (a[2] if len(a) > 2 else False))   # the same unknown, negated
            if rv.j['op'] == 'Not':
                return self.fresh_bool(rv)
            return TOP
        if k == 'cast':
            return self.eval_op(body, rv.ops[0], store, heap)
        return TOP

    # ---- one block
    def exec_block(self, body, blk, store, heap):
        b = body.blocks[blk]
        for s in b.stmts:
            if s.k == 'assign':
                if id(s) in self.advance_stmts:
                    # the advance over a record happens here (robust to inlining of the helper)
                    self.events['advance'] += 1
                    if heap.get('complete') is not True:
                        self.violate_at('FSM-P', body, s.line, 'advance-without-located-record',
                                        'the reader advances (file position += record extent) although no located record is pending [state=%s%s]' % (
                                            heap['state'], ', search incomplete' if heap.get('inc') == 'Some' else ''), heap)
                    heap['complete'] = False
                v = self.eval_rvalue(body, s, store, heap)
                self.write_place(body, s.place, v, store, heap, s)
        t = b.term
        k = t.k
        if k == 'goto':
            return [(t.j['target'], store, heap)]
        if k == 'return':
            return [('ret', store, heap)]
        if k in ('unreachable', 'resume', 'terminate'):
            return []
        if k == 'drop':
            return [(t.j['target'], store, heap)]
        if k == 'assert':
            return [(t.j['target'], store, heap)]
        if k == 'switch':
            v0_ = self.eval_op(body, t.discr, store, heap)
            if self.is_eof_switch(body, blk) and not (v0_[0] == 'b?' and len(v0_) > 1 and v0_[1] in self.full_ids):
                # (a comparison the value-based recognition below did not identify) which edge means "buffer is full" (length not less than the capacity)?
                full_t = self.full_edge(body, blk)
                v0 = self.eval_op(body, t.discr, store, heap)
                outs = []
                for val, tg in [(vv, tg) for vv, tg in t.targets] + [(None, t.otherwise)]:
                    if body.blocks[tg].term.k == 'unreachable' and not body.blocks[tg].stmts:
                        continue
                    hp = heap.copy()
                    if hp.get('filled') is False:
                        self.violate_at('BUF-2', body, t.line, 'eof-verdict-on-unfilled-buffer',
                                        'an end-of-input verdict (buffer length < capacity) is taken although the buffer was altered in this call and not refilled', hp)
                    if full_t is not None:
                        hp['full'] = True if tg == full_t else hp.get('full')
                        self.events['full-evidence'] += 1
                    st2 = dict(store)
                    if not t.discr.is_const and t.discr.place.is_local():
                        st2[t.discr.place.local] = B(val != 0) if val is not None else B(True)
                    outs.append((tg, st2, hp))
                if v0[0] not in ('b', 'int'):
                    return outs
            if False:
                self.violate_at('BUF-2', body, t.line, 'eof-verdict-on-unfilled-buffer',
                                'an end-of-input verdict (buffer length < capacity) is taken although the buffer was altered in this call and not refilled', heap)
            v = self.eval_op(body, t.discr, store, heap)
            if v[0] == 'b':
                iv = 1 if v[1] else 0
            elif v[0] == 'int':
                iv = v[1]
            else:
                iv = None
            if iv is not None:
                for val, tg in t.targets:
                    if val == iv:
                        return [(tg, store, heap)]
                return [(t.otherwise, store, heap)]
            # unknown: fork over all successors (refining plain bool locals)
            outs = []
            succs = [(val, tg) for val, tg in t.targets] + [(None, t.otherwise)]
            for val, tg in succs:
                if body.blocks[tg].term.k == 'unreachable' and not body.blocks[tg].stmts:
                    continue
                st2 = dict(store)
                hp_ = heap.copy()
                if v[0] == 'b?' and len(v) > 1 and v[1] in self.full_ids:
                    # the outcome of a comparison of the buffer length with its capacity (made here, or in a predicate function
                    # whose result arrives here): the edge on which it says "full" is the evidence GROW-7 asks for
                    truth = (val != 0) if val is not None else True
                    pol = self.full_ids[v[1]]
                    if hp_.get('filled') is False:
                        self.violate_at('BUF-2', body, t.line, 'eof-verdict-on-unfilled-buffer',
                                        'an end-of-input verdict (buffer length < capacity) is taken although the buffer was altered in this call and not refilled', hp_)
                    if pol is not None:
                        if (truth != (v[2] if len(v) > 2 else False)) == pol:
                            hp_['full'] = True
                        self.events['full-evidence'] += 1
                if v[0] == 'b?':
                    truth = (val != 0) if val is not None else True
                    if not t.discr.is_const and t.discr.place.is_local():
                        st2[t.discr.place.local] = B(truth)
                    # every copy of the same unknown (and its negations) is now known on this branch
                    if len(v) > 1 and v[1] is not None:
                        base_truth = truth != (v[2] if len(v) > 2 else False)
                        for l2, v2 in list(st2.items()):
                            if isinstance(v2, tuple) and v2[:1] == ('b?',) and len(v2) > 1 and v2[1] == v[1]:
                                st2[l2] = B(base_truth != (v2[2] if len(v2) > 2 else False))
                outs.append((tg, st2, hp_))
            return outs
        if k == 'call':
            return self.exec_call(body, blk, t, store, heap)
        return []

    # ---- calls
    def exec_call(self, body, blk, t, store, heap):
        c = t.callee
        args = [self.eval_op(body, a, store, heap) for a in t.args]
        args = [self.eval_promoted(body, a[1]) if isinstance(a, tuple) and a and a[0] == 'promoted' else a for a in args]
        outs = []

        def finish(retv, hp, st=None):
            st2 = dict(st if st is not None else store)
            self.write_place(body, t.dest, retv, st2, hp)
            if t.target is not None:
                outs.append((t.target, st2, hp))

        if c is None:
            for v in self.havoc(body.local_tys[t.dest.local] if t.dest.is_local() else ''):
                finish(v, heap.copy())
            return outs
        # a combinator of Result / Option / bool with a closure: the closure body is interpreted like a callee
        handled = self.exec_combinator(body, t, c, args, store, heap, finish)
        if handled:
            return outs
        # reader code that runs inside a closure handed to anything else: its effects on the abstract state are not
        # modelled -> the state-machine rules give no verdict for this format
        if c.path.startswith(('std::result::Result::', 'std::option::Option::')) and body.key.startswith(self.reader + '::'):
            for cl in self.prog.closures_of(body):
                if any(a.is_const and a.j.get('closure') == cl.path for a in t.args) or any(
                        (not a.is_const) and any(r[0] == 'agg' and r[1].rv.j.get('closure') == cl.path for r in roots_of(body, a)) for a in t.args):
                    for _, t2 in cl.calls():
                        cb2 = self.prog.local_callee_body(t2.callee)
                        if (cb2 is not None and (cb2.path in self.refills or cb2.key.startswith(self.reader + '::'))) or (t2.callee and 'buffer_redux' in t2.callee.target_path()):
                            self.imprecise.add('%s runs reader code inside a closure passed to %s' % (body.key, c.path))
        path = c.path
        cb = self.prog.local_callee_body(c)
        dest_ty = body.local_tys[t.dest.local]
        # ---------- known std semantics
        if path in ('std::cmp::PartialEq::eq', 'std::cmp::PartialEq::ne'):
            a = self.deref_val(args[0], store, heap)
            d = self.deref_val(args[1], store, heap)
            r = None
            if a[0] == 'e' and d[0] == 'e' and a[1] == d[1] and not a[3] and not d[3]:
                r = a[2] == d[2]
            if r is None:
                finish(B(True), heap.copy())
                finish(B(False), heap.copy())
            else:
                finish(B(r if path.endswith('::eq') else not r), heap)
            return outs
        if path in ('std::cmp::PartialOrd::ge', 'std::cmp::PartialOrd::gt', 'std::cmp::PartialOrd::le', 'std::cmp::PartialOrd::lt'):
            a = self.deref_val(args[0], store, heap)
            d = self.deref_val(args[1], store, heap)
            ia = self.variant_index(a[1], a[2]) if a[0] == 'e' and not a[3] else None
            idd = self.variant_index(d[1], d[2]) if d[0] == 'e' and not d[3] else None
            if ia is not None and idd is not None and a[1] == d[1]:
                finish(B({'ge': ia >= idd, 'gt': ia > idd, 'le': ia <= idd, 'lt': ia < idd}[path.rsplit('::', 1)[-1]]), heap)
            else:
                finish(B(True), heap.copy())
                finish(B(False), heap.copy())
            return outs
        if path == 'std::ops::Try::branch':
            a = args[0]
            if a[0] == 'e' and a[1] == 'Result':
                if a[2] == 'Ok':
                    finish(E('ControlFlow', 'Continue', a[3][0] if a[3] else TOP), heap)
                else:
                    finish(E('ControlFlow', 'Break', E('Result', 'Err', a[3][0] if a[3] else ('err', '?'))), heap)
            elif a[0] == 'e' and a[1] == 'Option':
                if a[2] == 'Some':
                    finish(E('ControlFlow', 'Continue', a[3][0] if a[3] else TOP), heap)
                else:
                    finish(E('ControlFlow', 'Break', E('Option', 'None')), heap)
            else:
                finish(E('ControlFlow', 'Continue', TOP), heap.copy())
                finish(E('ControlFlow', 'Break', E('Result', 'Err', ('err', '?'))), heap.copy())
            return outs
        if path == 'std::ops::FromResidual::from_residual':
            a = args[0]
            if a[0] == 'e' and a[1] == 'Result' and a[2] == 'Err':
                finish(E('Result', 'Err', self.convert_err(c, a[3][0] if a[3] else ('err', '?'))), heap)
            elif a[0] == 'e' and a[1] == 'Option':
                finish(E('Option', 'None'), heap)
            else:
                finish(E('Result', 'Err', ('err', '?')), heap)
            return outs
        if path in ('std::convert::From::from', 'std::convert::Into::into'):
            a = args[0]
            if a[0] == 'err':
                finish(self.convert_err(c, a), heap)
            else:
                finish(a, heap)
            return outs
        if path in ('std::result::Result::map', 'std::option::Option::map', 'std::result::Result::map_err', 'std::result::Result::ok',
                    'std::result::Result::and', 'std::result::Result::is_ok', 'std::result::Result::is_err'):
            a = self.deref_val(args[0], store, heap)
            if a[0] == 'e' and a[1] in ('Result', 'Option'):
                good = a[2] in ('Ok', 'Some')
                if path == 'std::result::Result::map':
                    finish(E('Result', 'Ok', UNIT if dest_ty.startswith('std::result::Result<(),') else TOP) if good else a, heap)
                elif path == 'std::option::Option::map':
                    finish(E('Option', 'Some', TOP) if good else a, heap)
                elif path == 'std::result::Result::map_err':
                    cls = '?'
                    fa = t.args[1] if len(t.args) > 1 else None
                    if fa is not None and fa.is_const and 'closure' not in fa.j:
                        fs = str(fa.fn() or '') + ' ' + str(fa.j.get('s') or '')
                        if fs.strip().endswith('Error::Io') or (('From' in fs or 'Into' in fs) and 'io::Error' in dest_ty + fs and self.err_adt in dest_ty):
                            cls = 'io'      # map_err(Error::Io) / map_err(Error::from) on an io::Result: the I/O class of the reader's error
                    finish(a if good else E('Result', 'Err', ('err', cls)), heap)
                elif path == 'std::result::Result::ok':
                    finish(E('Option', 'Some', a[3][0] if a[3] else TOP) if good else E('Option', 'None'), heap)
                elif path == 'std::result::Result::is_ok':
                    finish(B(good), heap)
                elif path == 'std::result::Result::is_err':
                    finish(B(not good), heap)
                else:
                    finish(args[1] if good and len(args) > 1 else a, heap)
                return outs
        if path in ('std::result::Result::transpose', 'std::option::Option::transpose'):
            a = args[0]
            if a[0] == 'e' and a[1] == 'Result':          # Result<Option<T>, E> -> Option<Result<T, E>>
                if a[2] == 'Err':
                    finish(E('Option', 'Some', a), heap)
                    return outs
                inner = a[3][0] if a[3] else TOP
                if inner[0] == 'e' and inner[1] == 'Option':
                    finish(E('Option', 'None') if inner[2] == 'None' else E('Option', 'Some', E('Result', 'Ok', inner[3][0] if inner[3] else TOP)), heap)
                    return outs
            elif a[0] == 'e' and a[1] == 'Option':        # Option<Result<T, E>> -> Result<Option<T>, E>
                if a[2] == 'None':
                    finish(E('Result', 'Ok', E('Option', 'None')), heap)
                    return outs
                inner = a[3][0] if a[3] else TOP
                if inner[0] == 'e' and inner[1] == 'Result':
                    finish(inner if inner[2] == 'Err' else E('Result', 'Ok', E('Option', 'Some', inner[3][0] if inner[3] else TOP)), heap)
                    return outs
            if body.key.startswith(self.reader + '::'):
                self.imprecise.add('%s: the value handed to %s is not known variant by variant' % (body.key, path))
        if path == 'std::option::Option::ok_or':
            a = args[0]
            if a[0] == 'e' and a[1] == 'Option':
                if a[2] == 'Some':
                    finish(E('Result', 'Ok', a[3][0] if a[3] else TOP), heap)
                else:
                    finish(E('Result', 'Err', args[1]), heap)
            else:
                finish(E('Result', 'Ok', TOP), heap.copy())
                finish(E('Result', 'Err', args[1]), heap.copy())
            return outs
        if path in ('std::option::Option::is_none', 'std::option::Option::is_some'):
            a = self.deref_val(args[0], store, heap)
            if a[0] == 'e' and a[1] == 'Option':
                r = (a[2] == 'None')
                finish(B(r if path.endswith('is_none') else not r), heap)
            else:
                finish(B(True), heap.copy())
                finish(B(False), heap.copy())
            return outs
        if path == 'std::option::Option::take':
            a = args[0]
            if isinstance(a, tuple) and a[0] == 'rselfp' and a[1] == ('incomplete_pos',):
                cur = heap.get('inc')
                heap['inc'] = 'None'
                finish(E('Option', 'Some', TOP) if cur == 'Some' else E('Option', 'None'), heap)
                return outs
        if path == 'std::option::Option::unwrap_or':
            a = args[0]
            if a[0] == 'e' and a[1] == 'Option':
                finish(a[3][0] if a[2] == 'Some' and a[3] else args[1], heap)
            else:
                finish(TOP, heap)
            return outs
        if path in ('std::option::Option::unwrap', 'std::result::Result::unwrap'):
            a = args[0]
            if a[0] == 'e' and a[2] in ('Some', 'Ok') and a[3]:
                finish(a[3][0], heap)
            else:
                finish(TOP, heap)
            return outs
        # ---------- the reader buffer as a value (for "the bytes copied into a set are the whole buffer")
        if c.is_('buffer_redux::BufReader::buffer') and args and isinstance(args[0], tuple) and args[0][:1] == ('rselfp',):
            finish(('readerbuf',), heap)
            return outs
        if path in ('std::ops::Index::index', 'std::ops::IndexMut::index_mut') and args and args[0] in (('readerbuf',), ('readerbuf-part',)):
            finish(('readerbuf-part',), heap)
            return outs
        if path in ('std::ops::Deref::deref', 'std::convert::AsRef::as_ref', 'std::iter::IntoIterator::into_iter', 'core::slice::iter') and args and args[0] in (('readerbuf',), ('readerbuf-part',)):
            finish(args[0], heap)
            return outs
        # ---------- record-set events
        if args and isinstance(args[0], tuple) and args[0] and args[0][0] == 'rsetp':
            fpath = args[0][1]
            fty = self.rset_field_type(fpath)
            # a set with a separate logical record count (a usize field next to the offsets vector, as
            # in FASTA: the vector keeps its old entries and is overwritten) : the physical vector
            # says nothing about the number of records of this batch
            logical = self.rset_has_count_field()
            if c.name == 'clear' and 'BufferPosition' in fty:
                heap['setc'] = 0
                if logical:
                    heap['vecn'] = 0
                heap['dirty'] = True
                finish(UNIT, heap)
                return outs
            if c.name in ('push',) and 'BufferPosition' in fty:
                if heap.get('setc') == 'old':
                    self.violate('FSM-S4', body, t, 'push-before-old-batch-cleared',
                                 'a record is pushed into the set before the offsets of the previous batch were cleared (the set would contain old records too)', heap)
                if logical:
                    heap['vecn'] = 1
                else:
                    heap['setc'] = 1
                    heap['pushed'] = True
                heap['dirty'] = True
                finish(UNIT, heap)
                return outs
            if c.name in ('is_empty',) and 'BufferPosition' in fty:
                n = heap.get('vecn', 'old') if logical else heap['setc']
                if logical and n == 'old' and heap['setc'] == 1:
                    n = 1   # the vector holds at least the records counted in this batch
                if n in (0, 1):
                    finish(B(n == 0), heap)
                else:
                    finish(B(True), heap.copy())
                    finish(B(False), heap.copy())
                return outs
            if c.name == 'len' and 'BufferPosition' in fty:
                n = heap.get('vecn', 'old') if logical else heap['setc']
                finish(('cnt', n) if n in (0, 1) or not logical else TOP, heap)
                return outs
            if c.name in ('extend', 'extend_from_slice') and fty.replace(' ', '') == 'std::vec::Vec<u8>':
                src = args[1] if len(args) > 1 else TOP
                if src == ('readerbuf',) and heap.get('bufclr'):
                    heap['dirty'] = False
                elif src == ('readerbuf-part',):
                    self.violate('FSM-S4', body, t, 'partial-buffer-copied',
                                 'only a part of the reader buffer is copied into the set although the offsets refer to the whole buffer', heap)
                elif src == ('readerbuf',):
                    self.violate('FSM-S4', body, t, 'bytes-appended-without-clear',
                                 'the reader buffer is appended to the bytes of the previous batch (offsets would be shifted)', heap)
                heap['bufclr'] = False
                finish(UNIT, heap)
                return outs
            if c.name == 'clear' and fty.replace(' ', '') == 'std::vec::Vec<u8>':
                heap['bufclr'] = True
                finish(UNIT, heap)
                return outs
        # ---------- buffer protocol ghost `filled` (BUF-2): altering the buffer un-fills it, a successful refill fills it
        if args and isinstance(args[0], tuple) and args[0][:1] == ('rselfp',) and args[0][1][:1] == ('buf_reader',):
            if c.is_('buffer_redux::BufReader::reserve'):
                self.events['grow'] += 1
                if heap.get('full') is False:
                    self.violate('GROW-7', body, t, 'growth-without-full-buffer',
                                 'the buffer is enlarged although, since the last refill, it was not found to be full (the record may simply not have been read completely yet, e.g. at the end of the input)', heap)
            if c.is_('std::io::BufRead::consume', 'buffer_redux::BufReader::make_room', 'buffer_redux::BufReader::reserve', 'std::io::Seek::seek'):
                heap['filled'] = False
                heap['full'] = False
            if cb is not None and cb.path in self.refills:
                for v in self.havoc(dest_ty):
                    hp = heap.copy()
                    if v[0] == 'e' and v[2] == 'Ok':
                        hp['filled'] = True
                        hp['full'] = False       # no evidence yet that the refilled buffer is full
                    else:
                        hp['full'] = '?'         # histories after a failed refill are exempt
                    finish(v, hp)
                return outs
        # ---------- crate-internal callee on &mut self / &self
        if cb is not None and args and args[0] == ('rself',) and cb.key.startswith(self.reader + '::'):
            if cb.path in self.locate:
                self.events['locate-calls'] += 1
                if heap.get('complete') is True:
                    self.violate('FSM-P', body, t, 'search-while-record-pending',
                                 'a record search starts although a located record has not been advanced over (it would be skipped / delivered twice) [state=%s]' % heap['state'], heap)
            if cb.path in self.locate and heap.get('setc') == 1 and any(a == B(True) for a in args[1:]):
                self.violate('FSM-S5', body, t, 'compaction-allowed-while-set-holds-records',
                             'the resumed search may move the buffer (flag true) although the record set under construction already holds records: their offsets would refer to moved bytes', heap)
            for (rv, hp) in self.run_fn(cb, heap, args + [TOP] * (cb.arg_count - len(args))):
                if cb.path in self.locate and isinstance(rv, tuple) and rv[:3] == ('e', 'Result', 'Ok') and rv[3] and isinstance(rv[3][0], tuple) and rv[3][0][:1] != ('b',):
                    # the search reports an outcome that this abstraction cannot tie to a branch (e.g. `Ok(found)` computed from
                    # buffer contents): the ghost "a record is located" is then unreliable -> the FSM rules give no verdict
                    self.imprecise.add('the result of %s is a computed boolean, not a literal on each path' % cb.key)
                if cb.path in self.validators:
                    hp['validated'] = True
                if cb.path in self.locate and rv == E('Result', 'Ok', B(True)):
                    hp['complete'] = True
                    if self.validators:
                        self.events['located-with-end'] += 1 if hp.get('endset') else 0
                        if hp.get('endset') and not hp.get('validated'):
                            self.violate('FSM-V', body, t, 'located-record-not-validated',
                                         'the search reports a located record whose end offset was assigned in this call without the validator having run afterwards', hp)
                finish(rv, hp)
            return outs
        if cb is not None and cb.arg_count >= 1 and args and isinstance(args[0], tuple) and args[0] and args[0][0] in ('rset', 'rsetp'):
            # helper on the record set (e.g. an extracted "copy the buffer" method): interpret it
            for (rv, hp) in self.run_fn(cb, heap, args + [TOP] * (cb.arg_count - len(args))):
                finish(rv, hp)
            return outs
        if cb is not None and cb.arg_count >= 1 and args and isinstance(args[0], tuple) and args[0] and args[0][0] in ('rselfp',):
            # helper on a sub-object of the reader (BufferPosition::reset/update, ...): no tracked effect
            for v in self.havoc(dest_ty):
                finish(v, heap.copy())
            return outs
        # ---------- everything else: havoc by type
        vals = self.havoc(dest_ty)
        if dest_ty.startswith('std::result::Result<') and self.err_adt in dest_ty:
            vals = [v for v in vals if v[2] == 'Ok'] + [E('Result', 'Err', ('err', '?'))]
        for v in vals:
            finish(v, heap.copy())
        return outs

    COMBINATORS = {
        # path: (type of the receiver, variant on which the closure runs, what becomes of the closure's result)
        'std::result::Result::and_then': ('Result', 'Ok', 'ret'),
        'std::result::Result::map': ('Result', 'Ok', 'Ok'),
        'std::result::Result::map_err': ('Result', 'Err', 'Err'),
        'std::result::Result::or_else': ('Result', 'Err', 'ret'),
        'std::result::Result::unwrap_or_else': ('Result', 'Err', 'val'),
        'std::option::Option::map': ('Option', 'Some', 'Some'),
        'std::option::Option::and_then': ('Option', 'Some', 'ret'),
        'std::option::Option::filter': ('Option', 'Some', 'filter'),
        'std::option::Option::ok_or_else': ('Option', 'None', 'Err'),
        'std::option::Option::or_else': ('Option', 'None', 'ret'),
        'std::option::Option::unwrap_or_else': ('Option', 'None', 'val'),
        'core::bool::then': ('bool', True, 'Some'),
    }

    def closure_value(self, body, op, val):
        """(closure body, upvars) of an operand that is a closure of this crate, else None"""
        path = ups = None
        if op.is_const and op.j.get('closure'):
            path, ups = op.j['closure'], ()
        elif isinstance(val, tuple) and val and val[0] == 'closure':
            path, ups = val[1], val[2]
        if path is None:
            return None
        if self._closure_bodies is None:
            self._closure_bodies = {b.path: b for b in self.prog.bodies.values() if '{closure' in b.key and b.promoted_of is None}
        cb = self._closure_bodies.get(path)
        return (cb, ups) if cb is not None else None

    def exec_combinator(self, body, t, c, args, store, heap, finish):
        if c.path in ('std::option::Option::map_or', 'std::result::Result::map_or') and len(args) == 3:
            # map_or(default, f): f(payload) on Some / Ok, the default otherwise
            cv = self.closure_value(body, t.args[2], args[2])
            if cv is None:
                return False
            cb, ups = cv
            rty = 'Option' if 'Option' in c.path else 'Result'
            good = 'Some' if rty == 'Option' else 'Ok'
            recv = args[0]
            cases = [(recv[2] == good, recv)] if (recv[0] == 'e' and recv[1] == rty) else [(True, E(rty, good, TOP)), (False, None)]
            for runs, rv in cases:
                hp = heap.copy()
                if not runs:
                    finish(args[1], hp)
                    continue
                clo = ('tuple', tuple(ups))
                if cb.local_tys[1].startswith('&'):
                    clo = ('rval', clo)
                cargs = [clo] + ([rv[3][0] if rv[3] else TOP] if cb.arg_count >= 2 else [])
                cargs += [TOP] * (cb.arg_count - len(cargs))
                for (r, hp2) in self.run_fn(cb, hp, cargs):
                    finish(r, hp2)
            return True
        spec = self.COMBINATORS.get(c.path)
        if spec is None or len(args) != 2:
            return False
        cv = self.closure_value(body, t.args[1], args[1])
        if cv is None:
            return False
        cb, ups = cv
        rty, runs_on, what = spec
        dest_ty = body.local_tys[t.dest.local]
        recv = args[0]
        # the cases of the receiver: (closure runs?, payload)
        cases = []
        if rty == 'bool':
            if recv[0] == 'b':
                cases = [(recv[1], None)]
            else:
                cases = [(True, None), (False, None)]
        elif recv[0] == 'e' and recv[1] == rty:
            cases = [(recv[2] == runs_on, recv)]
        else:
            good, bad = ('Ok', 'Err') if rty == 'Result' else ('Some', 'None')
            cases = [(good == runs_on, E(rty, good, TOP)),
                     (bad == runs_on, E('Result', 'Err', ('err', '?')) if rty == 'Result' else E('Option', 'None'))]
        for runs, rv in cases:
            hp = heap.copy()
            if not runs:
                if rty == 'bool':
                    finish(E('Option', 'None'), hp)
                elif what == 'val':
                    finish(rv[3][0] if rv[3] else TOP, hp)
                elif c.path == 'std::option::Option::ok_or_else':
                    finish(E('Result', 'Ok', rv[3][0] if rv[3] else TOP), hp)
                else:
                    finish(rv, hp)
                continue
            payload = (rv[3][0] if rv[3] else TOP) if rv is not None else None
            if what == 'filter':
                payload = ('rval', payload)
            clo = ('tuple', tuple(ups))
            if cb.local_tys[1].startswith('&'):
                clo = ('rval', clo)
            cargs = [clo] + ([payload] if cb.arg_count >= 2 else [])
            cargs += [TOP] * (cb.arg_count - len(cargs))
            for (r, hp2) in self.run_fn(cb, hp, cargs):
                if what == 'ret' or what == 'val':
                    finish(r, hp2)
                elif what == 'Ok':
                    if r == TOP and dest_ty.startswith('std::result::Result<(),'):
                        r = UNIT
                    finish(E('Result', 'Ok', r), hp2)
                elif what == 'Err':
                    finish(E('Result', 'Err', r if isinstance(r, tuple) and r[:1] == ('err',) else ('err', '?')), hp2)
                elif what == 'Some':
                    finish(E('Option', 'Some', r), hp2)
                elif what == 'filter':
                    if r[0] == 'b':
                        finish(rv if r[1] else E('Option', 'None'), hp2)
                    else:
                        finish(rv, hp2.copy())
                        finish(E('Option', 'None'), hp2.copy())
        return True

    def convert_err(self, callee, e):
        if e[0] != 'err':
            return e
        res = callee.resolved or ''
        if 'as std::convert::From>::from' in res and 'Error' in res and e[1] in ('io', '?'):
            # <Error as From<io::Error>>::from
            return ('err', 'io')
        return e

    def rset_field_type(self, fpath):
        adt = self.prog.adts.get('%s::RecordSet' % self.fmt)
        if adt and fpath:
            for fd in adt['variants'][0]['fields']:
                if fd['name'] == fpath[0]:
                    return fd['ty']
        return ''

    def rset_has_count_field(self):
        adt = self.prog.adts.get('%s::RecordSet' % self.fmt)
        return bool(adt) and any(fd['ty'].strip() == 'usize' for fd in adt['variants'][0]['fields'])

    def path_of(self, parent, item):
        out = []
        while item is not None:
            out.append(item[0])
            item = parent.get(item)
        return list(reversed(out))

    def trace(self):
        """call stack with the block path inside each activation"""
        out = []
        for body, parent, item in self.call_ctx:
            out.append('%s: bb%s' % (body.key, '>'.join(str(x) for x in self.path_of(parent, item))))
        return out

    def full_edge(self, body, blk):
        """successor of an end-of-input test on which the buffer is full (len >= capacity)"""
        t = body.blocks[blk].term
        for r in roots_of(body, t.discr, DefUse(body)):
            if r[0] == 'bin':
                op = r[1].rv.j['op']
                first_is_len = any(d[0] == 'call' and d[1].callee and d[1].callee.name == 'len' for d in roots_of(body, r[1].rv.ops[0], DefUse(body)))
                zero = [tg for v, tg in t.targets if v == 0]
                zero = zero[0] if zero else None
                if op in ('Lt',) and first_is_len:       # len < cap : false edge = full
                    return zero
                if op in ('Ge',) and first_is_len:
                    return t.otherwise
                if op in ('Gt',) and not first_is_len:   # cap > len
                    return zero
                if op in ('Le',) and not first_is_len:   # cap <= len
                    return t.otherwise
                if op == 'Eq':
                    return t.otherwise
                if op == 'Ne':
                    return zero
        return None

    def full_cmp(self, body, s):
        """(polarity,) if the statement compares the length of the reader's buffer with its capacity: polarity True when the
        result `true` means "the buffer is full", False when it means "not full", None for a comparison that means neither
        (`len <= capacity`)"""
        key = (body.path, id(s))
        if key in self.full_cmps:
            return self.full_cmps[key]
        import rules_err
        from mir import data_deps
        rules_err._PROG[0] = self.prog
        du = DefUse(body)
        res = None
        sides = []
        for o in s.rv.ops:
            calls = [x[1].callee for x in data_deps(body, o, du) if x[0] == 'call' and x[1].callee]
            sides.append((any(c.is_('buffer_redux::BufReader::capacity') for c in calls),
                          (any(c.path.endswith('slice::len') or c.name == 'len' for c in calls) and any(rules_err.is_buffer_call(self.prog, c) for c in calls))
                          or any(c.is_('buffer_redux::BufReader::buf_len') for c in calls)))
        if len(sides) == 2 and ((sides[0] == (False, True) and sides[1] == (True, False)) or (sides[0] == (True, False) and sides[1] == (False, True))):
            first_is_len = sides[0][1]
            op = s.rv.j['op']
            pol = {('Lt', True): False, ('Ge', True): True, ('Gt', False): False, ('Le', False): True}.get((op, first_is_len))
            if op == 'Eq':
                pol = True
            if op == 'Ne':
                pol = False
            res = (pol,)
        self.full_cmps[key] = res
        return res

    def is_eof_switch(self, body, blk):
        key = (body.path, blk)
        if key not in self.eof_tests:
            import rules_err
            rules_err._PROG[0] = self.prog
            self.eof_tests[key] = rules_err.is_eof_test(body, blk, DefUse(body))
        return self.eof_tests[key]

    def violate_at(self, rule, body, line, inst, detail, heap):
        # keyed by the public operation during which it happens (stable under inlining / extraction of helpers)
        op = self.call_ctx[0][0] if self.call_ctx else body
        self.violations.append((rule, op.key, inst, '%s:%s (%s)' % (body.file, line, body.key), detail + ' || trace: ' + ' | '.join(self.trace())))

    def violate(self, rule, body, term, inst, detail, heap):
        self.violations.append((rule, body.key, inst, '%s:%s (%s)' % (body.file, term.line, body.key), detail + ' || trace: ' + ' | '.join(self.trace())))


def split_two(s):
    depth = 0
    for i, ch in enumerate(s):
        if ch == '<' or ch == '(':
            depth += 1
        elif ch == '>' or ch == ')':
            depth -= 1
        elif ch == ',' and depth == 0:
            return s[:i].strip(), s[i + 1:].strip()
    return s.strip(), ''


def freeze_store(st):
    return tuple(sorted((k, v) for k, v in st.items() if v != TOP))


def classify(ret):
    """Option<Result<_, Error>> -> 'None' | 'Some(Ok)' | 'Some(Err(cls))'; Result -> 'Ok' | 'Err(cls)'"""
    if not isinstance(ret, tuple) or ret[0] != 'e':
        return '?'
    if ret[1] == 'Option':
        if ret[2] == 'None':
            return 'None'
        inner = ret[3][0] if ret[3] else TOP
        return 'Some(%s)' % classify(inner)
    if ret[1] == 'Result':
        if ret[2] == 'Ok':
            return 'Ok'
        e = ret[3][0] if ret[3] else ('err', '?')
        return 'Err(%s)' % (e[1] if e[0] == 'err' else '?')
    return '?'
