"""UNIT-* placeholder: filled in by the UNITS engine (E5)."""


def run(prog, R):
    import units
    return units.run(prog, R)
