"""PAR-* rules (DESIGN appendix A.7) — properties C07, C08, C15, C16.

Anchors are public API items and external callees only:
  parallel::read_parallel_init (parameters by position: 1 n_threads, 2 queue_len, 3 reader_init,
  4 dataset_init, 5 work, 6 func), parallel::ParallelRecordsets::next,
  crossbeam_utils::thread::{scope, Scope::spawn, ScopedJoinHandle::join},
  scoped_threadpool::{Pool::scoped, Scope::execute, Scope::join_all},
  std::sync::mpsc::{sync_channel, SyncSender::send, Receiver::recv}.
"""
from flow import *
from mir import roots_of, DefUse, Operand, Place

RPI = 'parallel::read_parallel_init'
PRN = 'parallel::ParallelRecordsets::next'
P_NTHREADS, P_QLEN, P_RINIT, P_DINIT, P_WORK, P_FUNC = 1, 2, 3, 4, 5, 6


def closure_of_arg(prog, body, term, argidx):
    """closure Body passed as argument `argidx` of a call"""
    if argidx >= len(term.args):
        return None
    a = term.args[argidx]
    if a.is_const and 'closure' in a.j:
        return prog.bodies.get(a.j['closure'])
    for r in roots_of(body, a):
        if r[0] == 'agg' and r[1].rv.j.get('agg') == 'closure':
            return prog.bodies.get(r[1].rv.j['closure'])
    return None


def iter_identity(callee):
    """`into_iter()` on something that already is an iterator (the blanket impl) is the identity"""
    if callee is not None and callee.path == 'std::iter::IntoIterator::into_iter' \
            and callee.resolved == '<I as std::iter::IntoIterator>::into_iter':
        return 0
    if callee is not None and callee.path in ('std::ops::Deref::deref', 'std::ops::DerefMut::deref_mut'):
        return 0
    return None


def find_call(body, *suffixes):
    return [(b, t) for b, t in body.calls() if t.callee and t.callee.is_(*suffixes)]


def unwrap_aggs(body, op, shape, du=None):
    """Follow `op` back through a chain of aggregate constructions.  `shape` is a list of
    ('adt', variant) / ('tuple',) entries, outermost first.  Returns the operand list of the
    innermost aggregate, or None when the value is not built that way."""
    du = du or DefUse(body)
    cur = op
    ops = None
    for want in shape:
        rs = roots_of(body, cur, du)
        if len(rs) != 1 or rs[0][0] != 'agg' or rs[0][-1]:
            return None
        s = rs[0][1]
        j = s.rv.j
        if want[0] == 'adt':
            if j.get('agg') != 'adt' or j.get('variant') != want[1]:
                return None
        elif j.get('agg') != want[0]:
            return None
        ops = s.rv.ops
        if not ops:
            return ops
        cur = ops[0]
    return ops


class ParCtx:
    def __init__(self, prog, R):
        self.prog = prog
        self.R = R
        self.cl = Closures(prog)
        self.du = {}
        self.ok = True
        try:
            self.rpi = prog.get(RPI)
        except KeyError:
            self.rpi = None
        self.scope_cl = self.reader_cl = self.pool_cl = self.job_cl = None
        self.prn = None
        self.prn_cls = []
        self._anchors()

    def prov(self, body, x):
        return prov(self.prog, self.cl, body, x, du_cache=self.du)

    def _anchors(self):
        R = self.R
        if self.rpi is None:
            R.anchor_missing('PAR-15', RPI)
            self.ok = False
            return
        b = self.rpi
        c = find_call(b, 'crossbeam_utils::thread::scope')
        if len(c) == 1:
            self.scope_cl = closure_of_arg(self.prog, b, c[0][1], 0)
        if self.scope_cl is not None:
            c = find_call(self.scope_cl, 'crossbeam_utils::thread::Scope::spawn')
            if len(c) == 1:
                self.reader_cl = closure_of_arg(self.prog, self.scope_cl, c[0][1], 1)
        if self.reader_cl is not None:
            c = find_call(self.reader_cl, 'scoped_threadpool::Pool::scoped')
            if len(c) == 1:
                self.pool_cl = closure_of_arg(self.prog, self.reader_cl, c[0][1], 1)
        if self.pool_cl is not None:
            c = find_call(self.pool_cl, 'scoped_threadpool::Scope::execute')
            if len(c) >= 1:
                self.job_cl = closure_of_arg(self.prog, self.pool_cl, c[0][1], 1)
        try:
            self.prn = self.prog.get(PRN)
            self.prn_cls = [x for x in self.prog.bodies.values()
                            if x.meta.get('kind') == 'Closure' and x.meta.get('root') == self.prn.path]
        except KeyError:
            self.prn = None
        # the two channels, told apart by what they carry
        self.chan_done = self.chan_empty = None
        for blk, t in find_call(b, 'std::sync::mpsc::sync_channel'):
            ty = b.local_tys[t.dest.local]
            if 'std::option::Option<std::result::Result<' in ty:
                self.chan_done = t
            else:
                self.chan_empty = t

    # -- classification of channel endpoints ------------------------------------------
    def endpoint(self, body, op):
        """'done.send' | 'done.recv' | 'empty.send' | 'empty.recv' | None for a (reference to a)
        channel endpoint, resolved through closure environments and the ParallelRecordsets
        fields."""
        res = set()
        for r in self.prov(body, op):
            if r.kind == 'call' and r.data is self.chan_done and r.fields[:1] in (('0',), ('1',)):
                res.add('done.send' if r.fields[0] == '0' else 'done.recv')
            elif r.kind == 'call' and r.data is self.chan_empty and r.fields[:1] in (('0',), ('1',)):
                res.add('empty.send' if r.fields[0] == '0' else 'empty.recv')
            elif r.kind == 'call' and r.data.callee and r.data.callee.is_('std::clone::Clone::clone'):
                res.add('?')
            elif r.kind == 'param' and self.prn is not None and r.body.path == self.prn.path \
                    and r.data == 1 and r.fields[:1] and r.fields[0] in self.struct_fields:
                res.add(self.struct_fields.get(r.fields[0], '?'))
            else:
                res.add('?')
        if len(res) == 1:
            return res.pop()
        return None


def run(prog, R):
    R.rule('PAR-15', 'the reader closure is spawned inside crossbeam scope, jobs are executed inside Pool::scoped (all threads are scoped and joined)')
    R.rule('PAR-16', 'priming of the recycle channel: the loop starts at 0 with a bound that covers the queue length (at least one set circulates for every queue length >= 1) and the bound has the same origin as the capacity of the channel it fills (the priming sends cannot block)')
    R.rule('PAR-8', 'both sync_channel capacities and the bound of the initial fill loop derive from the queue_len parameter only')
    R.rule('PAR-9', 'the data-set initialiser is called at <=2 sites, both in the scope closure: one inside a single loop over 0..queue_len, one outside any loop; only the fill loop and ParallelRecordsets::next send on the recycle channel; the reader fills only sets it received')
    R.rule('PAR-1', 'job closure: the message is Some(Ok((captured set, value returned by the worker called on &mut that set)))')
    R.rule('PAR-2', 'reader loop: the set received from the recycle channel is passed to fill_data and, on every path back to the loop head, moved into the job closure given to execute')
    R.rule('PAR-3', 'join_all dominates every send of the end marker (None) and no job is executed after it')
    R.rule('PAR-5', 'ParallelRecordsets::next installs the received set as current, recycles the previous one and returns (&mut current, received output)')
    R.rule('PAR-6', 'every path from the consumer call to ScopedJoinHandle::join drops the ParallelRecordsets value first')
    R.rule('PAR-7', 'no result of a channel send/recv flows into unwrap/expect; the reader leaves its loop when recv fails')
    R.rule('PAR-10', 'reader error arm: the error value is moved into one send(Some(Err(e))) on the result channel and the loop head is unreachable afterwards')
    R.rule('PAR-11', 'results of the reader initialiser, the data-set initialiser (x2) and the reader thread join flow into `?`')
    R.rule('PAR-12', 'per-record consumers: the item of ParallelRecordsets::next and a Result returned by the worker flow into `?`')
    R.rule('PAR-4', 'per-record workers: zip(out.iter_mut(), &mut records) in this operand order; the surplus loop continues on the same record iterator, pushes one initialised output per record and passes that element; consumers pair records and outputs in index order')
    cx = ParCtx(prog, R)
    if not cx.ok:
        return cx
    rpi = cx.rpi
    # ---------------- PAR-15
    for nm, b in (('scope-closure', cx.scope_cl), ('reader-closure', cx.reader_cl),
                  ('pool-closure', cx.pool_cl), ('job-closure', cx.job_cl)):
        R.add('PAR-15', rpi, nm, True, site(rpi, rpi.span['lo']),
              'found %s' % (b.key if b else 'nothing (the thread structure is not in the shape the PAR rules reason about)'), undecided=b is None)
    if None in (cx.scope_cl, cx.reader_cl, cx.pool_cl, cx.job_cl, cx.prn, cx.chan_done, cx.chan_empty):
        R.anchor_missing('PAR-15', 'closure nesting / channels / ParallelRecordsets::next')
        cx.ok = False
        return cx
    sc, rc, pc, jc = cx.scope_cl, cx.reader_cl, cx.pool_cl, cx.job_cl

    # the ParallelRecordsets aggregate (ties struct fields to channels)
    cx.struct_fields = {}
    rsets_stmt = None
    for blk in sc.blocks:
        for s in blk.stmts:
            if s.k == 'assign' and s.rv.k == 'agg' and s.rv.j.get('agg') == 'adt' and \
                    s.rv.j['adt'].endswith('ParallelRecordsets'):
                rsets_stmt = s
    if rsets_stmt is None:
        R.anchor_missing('PAR-9', 'construction of ParallelRecordsets in the scope closure')
        cx.ok = False
        return cx
    fld = rsets_stmt.rv.j['fields']
    for name, op in zip(fld, rsets_stmt.rv.ops):
        for r in cx.prov(sc, op):
            if r.kind == 'call' and r.data is cx.chan_empty and r.fields[:1] == ('0',):
                cx.struct_fields[name] = 'empty.send'
            elif r.kind == 'call' and r.data is cx.chan_done and r.fields[:1] == ('1',):
                cx.struct_fields[name] = 'done.recv'
    # (whatever the private fields are called:) one field holds the recycle sender, one the result receiver, and the
    # remaining one is the data set currently lent to the consumer
    R.add('PAR-9', sc, 'struct-fields', sorted(cx.struct_fields.values()) == ['done.recv', 'empty.send'], site(sc, rsets_stmt.line),
          'ParallelRecordsets{recycle sender, result receiver, current set}: %s' % cx.struct_fields)
    cx.cur_field = next((n_ for n_ in fld if n_ not in cx.struct_fields), 'current_recordset')

    # ---------------- PAR-8
    # (the capacity of the *result* channel does not bound the number of sets and is not constrained)
    for nm, t in (('recycle-channel', cx.chan_empty),):
        rs = cx.prov(rpi, t.args[0])
        ok = len(rs) == 1 and rs[0].is_param(rpi.key, P_QLEN, ())
        R.add('PAR-8', rpi, 'capacity:' + nm, ok, site(rpi, t.line),
              'capacity derives from: ' + '; '.join(r.describe() for r in rs))
    # ranges in the scope closure
    range_loops = {}   # header -> Iterator::next Term
    loops = sc.cfg.natural_loops()
    for h, blocks in loops.items():
        for b in blocks:
            t = sc.blocks[b].term
            if t.k == 'call' and t.callee and t.callee.path == 'std::iter::Iterator::next':
                rs = roots_of(sc, t.args[0], through_calls=identity_through)
                for r in rs:
                    if r[0] == 'agg' and r[1].rv.j.get('adt', '').endswith('ops::Range'):
                        range_loops[h] = (t, r[1], b)
    for h, (t, agg, b) in range_loops.items():
        lo = agg.rv.ops[0]
        hi = cx.prov(sc, agg.rv.ops[1])
        ok = lo.const_int() == 0 and len(hi) == 1 and hi[0].is_param(rpi.key, P_QLEN, ())
        R.add('PAR-8', sc, 'fill-loop-range', ok, site(sc, agg.line),
              'range %s..%s' % (lo.pretty(), '; '.join(r.describe() for r in hi)))
        # PAR-16 (for C07 / C08, which do not care how many sets there are, only that there is one and that
        # priming cannot block): round-4 seeds C07-r4a (`1..queue_len`) vs. C16-r4b (max(queue_len, n_threads) everywhere)
        cap = cx.prov(rpi, cx.chan_empty.args[0])

        def has_qlen(rs, depth=0):
            for r in rs:
                if r.is_param(rpi.key, P_QLEN, ()):
                    return True
                if r.kind == 'call' and depth < 3 and any(has_qlen(cx.prov(r.body, a), depth + 1) for a in r.data.args):
                    return True
                if r.kind == 'bin' and depth < 3 and any(has_qlen(cx.prov(r.body, o), depth + 1) for o in r.data.rv.ops):
                    return True
            return False
        same = sorted(r.describe() for r in hi) == sorted(r.describe() for r in cap)
        R.add('PAR-16', sc, 'priming-starts-at-0-and-covers-the-queue-length', lo.const_int() == 0 and has_qlen(hi), site(sc, agg.line),
              'range %s..%s: with a queue length of 1 at least one set must reach the reader' % (lo.pretty(), '; '.join(r.describe() for r in hi)))
        R.add('PAR-16', sc, 'priming-bound-is-the-recycle-capacity', same, site(sc, agg.line),
              'bound of the priming loop <- %s; capacity of the recycle channel <- %s (a larger bound blocks in send before the consumer exists)' % (
                  '; '.join(r.describe() for r in hi), '; '.join(r.describe() for r in cap)))

    # ---------------- PAR-9
    init_sites = []
    for body in prog.bodies.values():
        for blk, t in body.calls():
            if t.callee and t.callee.path in ('std::ops::FnMut::call_mut', 'std::ops::Fn::call',
                                              'std::ops::FnOnce::call_once'):
                rs = cx.prov(body, t.args[0])
                if any(r.is_param(rpi.key, P_DINIT) for r in rs):
                    init_sites.append((body, blk, t))
    n_loop = n_straight = n_other_loop = 0
    for body, blk, t in init_sites:
        where = 'other'
        ok = False
        if body is sc:
            hs = in_loop(sc, blk)
            if not hs:
                where = 'straight-line'
                n_straight += 1
                ok = n_straight <= 1
            elif len(hs) == 1 and hs[0] in range_loops:
                where = 'fill-loop'
                n_loop += 1
                nt, agg, nb = range_loops[hs[0]]
                # every iteration passes the Range::next call; leaving on None
                every_iter = all(sc.cfg.dominates(nb, a) for a, hh in sc.cfg.back_edges() if hh == hs[0])
                ok = n_loop <= 1 and every_iter
        # in the setup code, inside a loop that is not the `for _ in 0..queue_len` form (a countdown, a `while n < queue_len`):
        # how often it runs is not decided here
        other_loop = body is sc and where == 'other' and bool(in_loop(sc, blk))
        if other_loop:
            # ... provided the loop is controlled by a quantity derived from the queue length at all; a loop that only ends when
            # a send fails (`while try_send(init()?).is_ok() {}`, seed C16-r4a) is bounded by the channel, not by queue_len
            loops_ = sc.cfg.natural_loops()
            dep_q = False
            for h_ in in_loop(sc, blk):
                for x_ in loops_.get(h_, ()):
                    tt_ = sc.blocks[x_].term
                    if tt_.k == 'switch' and not tt_.discr.is_const and any(s_ not in loops_[h_] for s_ in sc.cfg.succ.get(x_, ())):
                        # any value feeding the exit test that derives from the queue-length parameter
                        stack_ = [tt_.discr]
                        seen_ops = 0
                        while stack_ and seen_ops < 40 and not dep_q:
                            o_ = stack_.pop()
                            seen_ops += 1
                            if o_.is_const:
                                continue
                            if any(r_.is_param(rpi.key, P_QLEN, ()) for r_ in cx.prov(sc, o_)):
                                dep_q = True
                                break
                            for r_ in roots_of(sc, o_):
                                if r_[0] in ('bin', 'un') and getattr(r_[1], 'rv', None) is not None:
                                    stack_ += [q_ for q_ in r_[1].rv.ops if not q_.is_const]
            if not dep_q:
                other_loop = False
        if other_loop:
            n_other_loop += 1
        R.add('PAR-9', body, 'init-site:%s#%d' % (where, n_loop if where == 'fill-loop' else n_straight),
              ok, site(body, t.line), 'data-set initialiser called (%s)%s' % (where, ' - in a loop of the setup code whose trip count this rule does not determine: not judged' if other_loop else ''),
              undecided=other_loop)
    # exactly one straight-line site, and it provides the consumer's current set (queue_len + 1 sets in total)
    cur_ok = False
    for name, op in zip(rsets_stmt.rv.j['fields'], rsets_stmt.rv.ops):
        if name in cx.struct_fields:
            continue
        rs = cx.prov(sc, op)
        if rs and all(r.kind == 'call' and any(tt is r.data and bb is r.body and not in_loop(sc, blk_) for bb, blk_, tt in init_sites) for r in rs):
            cur_ok = True
    R.add('PAR-9', sc, 'current-set-is-the-extra-set', cur_ok and n_straight == 1 and n_loop == 1, site(sc, rsets_stmt.line),
          'the set the consumer holds first comes from the single initialiser call outside the fill loop (queue_len + 1 sets circulate: with fewer, a consumer holding one starves the reader): %s' % (cur_ok and n_straight == 1 and n_loop == 1),
          undecided=cur_ok and n_straight == 1 and n_loop == 0 and n_other_loop == 1)
    R.floor('PAR-9', 3)
    # other ways a data set could be created in generic parallel code: Default/Clone of the
    # record sets outside initialiser closures
    init_closures = set()
    for body in prog.bodies.values():
        for blk, t in body.calls():
            if t.callee and t.callee.is_(RPI) and len(t.args) >= 4:
                c = closure_of_arg(prog, body, t, 3)
                if c is not None:
                    init_closures |= prog.reachable_from([c])
    for body in prog.bodies.values():
        if not body.file.endswith('parallel.rs'):
            continue
        for blk, t in body.calls():
            if t.callee and t.callee.resolved and t.callee.path in ('std::default::Default::default',
                                                                   'std::clone::Clone::clone') \
                    and 'RecordSet' in t.callee.resolved and 'RecordSetIter' not in t.callee.resolved:
                R.add('PAR-9', body, 'recordset-creation', body.path in init_closures, site(body, t.line),
                      '%s called %s an initialiser closure' % (t.callee.resolved, 'inside' if body.path in init_closures else 'OUTSIDE'))
    # senders on the recycle channel
    for body in prog.bodies.values():
        if not body.file.endswith('parallel.rs'):
            continue
        for blk, t in body.calls():
            if not (t.callee and t.callee.is_('std::sync::mpsc::SyncSender::send', 'std::sync::mpsc::SyncSender::try_send')):
                continue
            ep = cx.endpoint(body, t.args[0])
            if ep != 'empty.send':
                continue
            msg = cx.prov(body, t.args[1])
            if body is sc:
                ok = all(r.kind == 'call' and any(b_ is r.body and tt is r.data for b_, _, tt in init_sites) for r in msg) and bool(msg)
                what = 'initial fill sends a freshly initialised set'
            elif body in cx.prn_cls or body is cx.prn:
                ok = bool(msg) and all(r.is_call('std::mem::replace') for r in msg)
                what = 'next() recycles the set replaced by mem::replace'
                if not ok and not t.args[1].is_const and t.args[1].place.is_local():
                    # `mem::swap(&mut self.current, &mut received); send(received)`: after the swap the local holds the previous set
                    du_ = DefUse(body)

                    def base_local(l, depth=0):
                        # the variable a temporary was moved / borrowed from
                        for d in du_.defs.get(l, []):
                            if d[2] == 'assign' and depth < 4:
                                rv_ = d[3].rv
                                if rv_.k == 'use' and not rv_.ops[0].is_const and rv_.ops[0].place.is_local():
                                    return base_local(rv_.ops[0].place.local, depth + 1)
                                if rv_.k == 'ref' and all(q['k'] == 'deref' for q in rv_.place.proj):
                                    return base_local(rv_.place.local, depth + 1)
                                if rv_.k == 'ref':
                                    return ('field', rv_.place.local)
                        return l
                    ml = base_local(t.args[1].place.local)
                    for y, t2 in body.calls():
                        if t2.callee and t2.callee.path == 'std::mem::swap' and len(t2.args) == 2 and body.cfg.dominates(y, blk):
                            bases = [base_local(a_.place.local) if (not a_.is_const and a_.place.is_local()) else None for a_ in t2.args]
                            selfs = [bool(roots_of(body, a_, du_)) and all(r_[0] == 'arg' and r_[1] == 1 and r_[-1] for r_ in roots_of(body, a_, du_)) if not a_.is_const else False for a_ in t2.args]
                            if (bases[0] == ml and selfs[1]) or (bases[1] == ml and selfs[0]):
                                ok = True
                                what = 'next() recycles the set it held before (exchanged with the received one by mem::swap)'
            else:
                ok = False
                what = 'unexpected sender on the recycle channel'
            R.add('PAR-9', body, 'recycle-send', ok, site(body, t.line),
                  what + ': message <- ' + '; '.join(r.describe() for r in msg))
    # the reader fills only what it received
    fills = find_call(pc, 'parallel::Reader::fill_data')
    for blk, t in fills:
        rs = cx.prov(pc, t.args[1])
        ok = bool(rs) and all(r.is_call('std::sync::mpsc::Receiver::recv') and r.fields[:1] == ('0',)
                              and cx.endpoint(pc, r.data.args[0]) == 'empty.recv' for r in rs)
        R.add('PAR-9', pc, 'fill-received-set', ok, site(pc, t.line),
              'fill_data target <- ' + '; '.join(r.describe() for r in rs))
    if not fills:
        R.anchor_missing('PAR-9', 'call of parallel::Reader::fill_data in the reader loop')

    # ---------------- PAR-1
    sends = [(b, t) for b, t in find_call(jc, 'std::sync::mpsc::SyncSender::send')]
    workers = []
    for blk, t in jc.calls():
        if t.callee and t.callee.path in ('std::ops::Fn::call', 'std::ops::FnMut::call_mut'):
            if any(r.is_param(rpi.key, P_WORK) for r in cx.prov(jc, t.args[0])):
                workers.append((blk, t))
    if len(workers) != 1 or len(sends) != 1:
        R.undecided('PAR-1', jc, 'shape', site(jc, jc.span['lo']),
              'expected one worker call and one send in the job closure, found %d/%d' % (len(workers), len(sends)))
    else:
        wb, wt = workers[0]
        sb, st = sends[0]
        ops = unwrap_aggs(jc, st.args[1], [('adt', 'Some'), ('adt', 'Ok'), ('tuple',)])
        ok_ep = cx.endpoint(jc, st.args[0]) == 'done.send'
        R.add('PAR-1', jc, 'channel', ok_ep, site(jc, st.line), 'job sends on the result channel')
        if ops is None or len(ops) != 2:
            R.add('PAR-1', jc, 'message-shape', False, site(jc, st.line), 'message is not Some(Ok((set, out)))')
        else:
            # set operand: the captured upvar, the same one the worker got by &mut
            set_roots = roots_of(jc, ops[0])
            wargs = unwrap_aggs(jc, wt.args[1], [('tuple',)])
            warg_roots = roots_of(jc, wargs[0]) if wargs else []
            same = (len(set_roots) == 1 and len(warg_roots) == 1 and set_roots[0][0] == 'arg'
                    and warg_roots[0][0] == 'arg' and set_roots[0][1] == 1 and warg_roots[0][1] == 1
                    and set_roots[0][-1] and set_roots[0][-1] == warg_roots[0][-1])
            R.add('PAR-1', jc, 'set-is-worker-argument', same, site(jc, st.line),
                  'message.0 <- %s ; worker argument <- %s' % (set_roots, warg_roots))
            out_roots = roots_of(jc, ops[1])
            ok = len(out_roots) == 1 and out_roots[0][0] == 'call' and out_roots[0][1] is wt and not out_roots[0][-1]
            R.add('PAR-1', jc, 'out-is-worker-result', ok, site(jc, st.line),
                  'message.1 <- %s' % [(r[0], getattr(r[1], 'line', None)) for r in out_roots])
            # the set the job captured is the one received from the recycle channel
            cap = cx.prov(jc, ops[0])
            ok = bool(cap) and all(r.is_call('std::sync::mpsc::Receiver::recv') for r in cap)
            R.add('PAR-1', jc, 'captured-set-is-received-set', ok, site(jc, st.line),
                  'captured set <- ' + '; '.join(r.describe() for r in cap))
            R.add('PAR-1', jc, 'worker-before-send', jc.cfg.dominates(wb, sb) and wb != sb or (wb == sb), site(jc, st.line),
                  'worker call dominates the send')

    # ---------------- PAR-2
    recvs = [(b, t) for b, t in find_call(pc, 'std::sync::mpsc::Receiver::recv')
             if cx.endpoint(pc, t.args[0]) == 'empty.recv']
    execs = find_call(pc, 'scoped_threadpool::Scope::execute')
    loops_pc = pc.cfg.natural_loops()
    if len(recvs) != 1 or not execs or not fills:
        R.undecided('PAR-2', pc, 'shape', site(pc, pc.span['lo']),
              'expected one recv on the recycle channel, fill_data and execute in the reader loop')
    else:
        rb, rt = recvs[0]
        hs = in_loop(pc, rb)
        R.add('PAR-2', pc, 'recv-in-loop', len(hs) >= 1, site(pc, rt.line), 'recv is inside the reader loop')
        # blocks that move the data local into the job closure which is passed to execute
        good = set()
        for eb, et in execs:
            jcb = closure_of_arg(prog, pc, et, 1)
            if jcb is None:
                continue
            _, agg = cx.cl.site[jcb.path]
            moved = False
            for op in agg.rv.ops:
                if op.k == 'move':
                    rs = cx.prov(pc, op)
                    if rs and all(r.is_call('std::sync::mpsc::Receiver::recv') and r.data is rt for r in rs):
                        moved = True
            if moved:
                good.add(eb)
        fb, ft = fills[0]
        for h in hs:
            # every path from fill_data back to the loop header passes an execute(closure{data})
            reach = pc.cfg.reach_from(fb, removed=good)
            back_src = [a for a, hh in pc.cfg.back_edges() if hh == h]
            bad = [a for a in back_src if a in reach or a == fb]
            R.add('PAR-2', pc, 'set-moved-into-job-on-every-iteration', not bad and bool(good), site(pc, ft.line),
                  'back edges reachable from fill_data without execute(job{set}): %s' % bad)

    # ---------------- PAR-3
    joins = find_call(pc, 'scoped_threadpool::Scope::join_all')
    none_sends = []
    for b, t in find_call(pc, 'std::sync::mpsc::SyncSender::send'):
        ops = unwrap_aggs(pc, t.args[1], [('adt', 'None')])
        if ops is not None and cx.endpoint(pc, t.args[0]) in ('done.send', '?', None):
            none_sends.append((b, t))
    # an end marker sent from anywhere else in the thread structure (e.g. queued as a pool job: it can overtake
    # results of jobs that are still running) is recognised and wrong; no end marker at all is an obligation missed
    stray = []
    for ob in prog.bodies.values():
        if ob is pc or not ob.file.endswith('parallel.rs') or not ob.path.startswith(rpi.path):
            continue
        for b2, t2 in find_call(ob, 'std::sync::mpsc::SyncSender::send'):
            ops2 = unwrap_aggs(ob, t2.args[1], [('adt', 'None')])
            if ops2 is not None:
                stray.append((ob, t2))
    for ob, t2 in stray:
        R.add('PAR-3', ob, 'end-marker', False, site(ob, t2.line), 'the end marker is sent from %s, not by the reader thread after join_all: it can overtake results of jobs that are still running' % ob.key)
    if not none_sends and not stray:
        R.anchor_missing('PAR-3', 'an end marker (send(None) on the result channel) after the reader loop', hard=True)
    for b, t in none_sends:
        ok = any(pc.cfg.dominates(jb, b) for jb, _ in joins)
        R.add('PAR-3', pc, 'end-marker', ok, site(pc, t.line), 'send(None) dominated by join_all: %s' % ok)
        after = pc.cfg.reach_from(b)
        late = [eb for eb, _ in execs if eb in after]
        R.add('PAR-3', pc, 'no-job-after-end-marker', not late, site(pc, t.line), 'execute reachable after the end marker: %s' % late)
    R.floor('PAR-3', 2)
    # the end marker is sent on every normal exit of the reader loop (a missing marker would
    # leave the consumer waiting while worker clones of the sender are alive -> after join_all
    # they are gone, so this is about *order*, not liveness); recorded for evidence only.

    # ---------------- PAR-5
    prn_bodies = [cx.prn] + cx.prn_cls
    repl = []
    for pb in prn_bodies:
        for b, t in find_call(pb, 'std::mem::replace'):
            repl.append((pb, b, t))
    if len(repl) != 1:
        R.undecided('PAR-5', cx.prn, 'shape', site(cx.prn, cx.prn.span['lo']), 'expected one mem::replace in next(), found %d' % len(repl))
    else:
        pb, b, t = repl[0]
        dst = cx.prov(pb, t.args[0])
        src = cx.prov(pb, t.args[1])
        ok_dst = bool(dst) and all(r.is_param(cx.prn.key, 1, (cx.cur_field,)) for r in dst)
        ok_src = bool(src) and all(r.is_call('std::sync::mpsc::Receiver::recv') and r.fields[-1:] == ('0',) for r in src)
        R.add('PAR-5', pb, 'install-received-set', ok_dst and ok_src, site(pb, t.line),
              'replace(%s, %s)' % ('; '.join(r.describe() for r in dst), '; '.join(r.describe() + str(r.fields) for r in src)))
        for r in src:
            if r.kind == 'call':
                R.add('PAR-5', pb, 'received-from-result-channel', cx.endpoint(r.body, r.data.args[0]) == 'done.recv',
                      site(r.body, r.data.line), 'recv on the result channel')
        # returned tuple
        found = False
        for blk in pb.blocks:
            for s in blk.stmts:
                if s.k == 'assign' and s.place.local == 0 and s.rv.k == 'agg' and s.rv.j.get('variant') == 'Ok':
                    ops = unwrap_aggs(pb, s.rv.ops[0], [('tuple',)])
                    if ops and len(ops) == 2:
                        found = True
                        r0 = cx.prov(pb, ops[0])
                        r1 = cx.prov(pb, ops[1])
                        ok0 = bool(r0) and all(x.is_param(cx.prn.key, 1, (cx.cur_field,)) for x in r0)
                        ok1 = bool(r1) and all(x.is_call('std::sync::mpsc::Receiver::recv') and x.fields[-1:] == ('1',) for x in r1)
                        R.add('PAR-5', pb, 'returns-current-and-received-output', ok0 and ok1 and pb.cfg.dominates(b, blk.idx),
                              site(pb, s.line), 'Ok((%s, %s))' % ('; '.join(x.describe() for x in r0), '; '.join(x.describe() + str(x.fields) for x in r1)))
        if not found:
            R.undecided('PAR-5', pb, 'returns-current-and-received-output', site(pb, t.line), 'no Ok((set, out)) aggregate found in this shape of next(): not judged')

    # PAR-5b: the receive dominates every return of next(): it cannot end the stream on its own
    recv_blocks = [x for x, t in find_call(cx.prn, 'std::sync::mpsc::Receiver::recv')]
    if len(recv_blocks) != 1:
        R.add('PAR-5', cx.prn, 'single-receive', False, site(cx.prn, cx.prn.span['lo']), 'expected exactly one recv in next(), found %d' % len(recv_blocks))
    else:
        rb_ = recv_blocks[0]
        bad = [e for e in cx.prn.cfg.exits if not cx.prn.cfg.dominates(rb_, e)]
        R.add('PAR-5', cx.prn, 'every-return-follows-the-receive', not bad, site(cx.prn, cx.prn.span['lo']),
              'returns of next() that are not preceded by the receive (the stream would end although results are still on their way): %s' % bad)
    # ---------------- PAR-6  (every join of the reader thread happens after both consumer-side endpoints died)
    consumer = []
    for blk, t in sc.calls():
        if t.callee and t.callee.path in ('std::ops::FnOnce::call_once', 'std::ops::FnMut::call_mut', 'std::ops::Fn::call'):
            if any(r.is_param(rpi.key, P_FUNC) for r in cx.prov(sc, t.args[0])):
                consumer.append((blk, t))
    joins_h = find_call(sc, 'crossbeam_utils::thread::ScopedJoinHandle::join')
    rl = rsets_stmt.place.local

    def holds(place_or_op):
        """which endpoints does this place/operand hold? -> set of 'empty.send' / 'done.recv'"""
        out = set()
        if isinstance(place_or_op, Place) and place_or_op.local == rl and not place_or_op.proj:
            return {'empty.send', 'done.recv'}
        for r in roots_of(sc, place_or_op):
            if r[0] == 'agg' and r[1] is rsets_stmt:
                names = [q[1] for q in r[-1]]
                if not names:
                    return {'empty.send', 'done.recv'}
                if names[0] in cx.struct_fields:
                    out.add(cx.struct_fields[names[0]])
        ep = cx.endpoint(sc, place_or_op)
        if ep in ('empty.send', 'done.recv'):
            out.add(ep)
        return out
    dropb = {'empty.send': set(), 'done.recv': set()}
    for x in sc.cfg.reachable:
        t = sc.blocks[x].term
        if t.k == 'drop':
            for e in holds(t.place):
                dropb[e].add(x)
        if t.k == 'call' and t.callee and t.callee.is_('std::mem::drop') and t.args and not t.args[0].is_const:
            for e in holds(t.args[0]):
                dropb[e].add(x)
    if not consumer or not joins_h:
        R.anchor_missing('PAR-6', 'consumer call / ScopedJoinHandle::join in the scope closure')
    nj = 0
    for jb, jt in joins_h:
        nj += 1
        alive = []
        for e in ('empty.send', 'done.recv'):
            reach = sc.cfg.reach_from(0, removed=dropb[e], include_start=True)
            if jb in reach:
                alive.append(e)
        R.add('PAR-6', sc, 'endpoints-dead-before-join#%d' % nj, not alive and bool(dropb['empty.send']) and bool(dropb['done.recv']), site(sc, jt.line),
              'consumer-side channel endpoints that can still be alive when the reader thread is joined: %s (the reader / workers would block on them forever)' % (alive or 'none'))
    for cb, ct in consumer:
        for jb, jt in joins_h:
            pass
    # ---------------- PAR-7
    PANICKY = ('std::result::Result::unwrap', 'std::result::Result::expect', 'std::result::Result::unwrap_unchecked',
               'std::result::Result::unwrap_err', 'std::result::Result::expect_err')
    n7 = 0
    ordinal = {}
    for body in prog.bodies.values():
        if not body.file.endswith('parallel.rs'):
            continue
        for blk, t in body.calls():
            c = t.callee
            if not c or not c.path.startswith('std::sync::mpsc::'):
                continue
            if c.name not in ('send', 'recv', 'try_send', 'try_recv', 'recv_timeout'):
                continue
            n7 += 1
            bad = [tt for (k, tt, i, via) in forward_sinks(body, t.dest.local) if k == 'call' and tt.callee and tt.callee.path in PANICKY]
            ep = cx.endpoint(body, t.args[0])
            ordinal[(body.path, c.name, ep)] = ordinal.get((body.path, c.name, ep), 0) + 1
            R.add('PAR-7', body, '%s:%s#%d' % (c.name, ep, ordinal[(body.path, c.name, ep)]), not bad, site(body, t.line),
                  'result of %s %s' % (c.path, 'flows into ' + bad[0].callee.path + ' (panics when the peer is gone)' if bad else 'is not unwrapped'))
    R.floor('PAR-7', 6)
    # reader leaves its loop when recv fails
    for rb, rt in recvs:
        # the Err edge: successors of the switch on the recv result that are not the Ok arm
        ok_blocks = set()
        for b in pc.cfg.reachable:
            for s in pc.blocks[b].stmts:
                if s.k == 'assign' and s.rv.k == 'use' and not s.rv.ops[0].is_const:
                    pl = s.rv.ops[0].place
                    if pl.local == rt.dest.local and any(p['k'] == 'downcast' and p['variant'] == 'Ok' for p in pl.proj):
                        ok_blocks.add(b)
        sw = None
        for b in pc.cfg.reach_from(rb, include_start=True):
            t = pc.blocks[b].term
            if t.k == 'switch':
                rs = roots_of(pc, t.discr)
                if any(r[0] == 'discr' and r[1].rv.place.local == rt.dest.local for r in rs):
                    sw = (b, t)
                    break
        if sw is None:
            R.add('PAR-7', pc, 'recv-err-leaves-loop', False, site(pc, rt.line), 'cannot find the match on the recv result')
        else:
            b, t = sw
            err_succ = [s for s in pc.cfg.succ[b] if s not in ok_blocks and pc.blocks[s].term.k != 'unreachable']
            hs = in_loop(pc, rb)
            bad = []
            for s in err_succ:
                reach = pc.cfg.reach_from(s, include_start=True)
                if any(h in reach for h in hs):
                    bad.append(s)
            R.add('PAR-7', pc, 'recv-err-leaves-loop', not bad and bool(err_succ), site(pc, rt.line),
                  'loop head reachable from the closed-channel arm: %s' % bad)

    # ---------------- PAR-10
    n10 = 0
    for fb, ft in fills:
        for b in pc.cfg.reachable:
            for s in pc.blocks[b].stmts:
                if not (s.k == 'assign' and s.rv.k == 'use' and s.rv.ops[0].k == 'move'):
                    continue
                pl = s.rv.ops[0].place
                if not any(p['k'] == 'downcast' and p['variant'] == 'Err' for p in pl.proj):
                    continue
                rs = roots_of(pc, pl)
                if not any(r[0] == 'call' and r[1] is ft for r in rs):
                    continue
                n10 += 1
                sinks = forward_sinks(pc, s.place.local)
                sent = [tt for (k, tt, i, via) in sinks if k == 'call' and tt.callee and tt.callee.is_('std::sync::mpsc::SyncSender::send')]
                dropped = [tt for (k, tt, i, via) in sinks if k == 'drop']
                ok = len(sent) == 1 and not dropped
                shape = False
                leaves = False
                if sent:
                    ops = unwrap_aggs(pc, sent[0].args[1], [('adt', 'Some'), ('adt', 'Err')])
                    shape = ops is not None and cx.endpoint(pc, sent[0].args[0]) in ('done.send', '?')
                    sbk = [bb for bb, tt in pc.calls() if tt is sent[0]][0]
                    reach = pc.cfg.reach_from(sbk)
                    leaves = not any(h in reach for h in in_loop(pc, fb))
                R.add('PAR-10', pc, 'reader-error-sent-once-then-stop', ok and shape and leaves, site(pc, s.line),
                      'error payload: sends=%d dropped=%d message Some(Err(e))=%s loop left=%s' % (len(sent), len(dropped), shape, leaves))
    R.floor('PAR-10', 1)

    # ---------------- PAR-11
    def flows_to_try(body, term):
        ok, _ = propagates(body, term.dest.local)
        if ok:
            return True
        # handle.join() : Result<Result<(), Er>, Box<dyn Any>> — the panic payload is unwrapped, the inner result propagated
        for (k, tt, i, via) in forward_sinks(body, term.dest.local):
            if k == 'call' and tt.callee and tt.callee.path in ('std::result::Result::unwrap', 'std::result::Result::expect'):
                if propagates(body, tt.dest.local)[0]:
                    return True
        return False
    n11 = {}
    for body in (sc, rc, pc):
        for blk, t in body.calls():
            if t.callee and t.callee.path in ('std::ops::FnOnce::call_once', 'std::ops::FnMut::call_mut', 'std::ops::Fn::call'):
                rs = cx.prov(body, t.args[0])
                for (pi, nm) in ((P_RINIT, 'reader_init'), (P_DINIT, 'dataset_init')):
                    if any(r.is_param(rpi.key, pi) for r in rs):
                        n11[nm] = n11.get(nm, 0) + 1
                        R.add('PAR-11', body, 'init-result-propagated:%s#%d' % (nm, n11[nm]), flows_to_try(body, t), site(body, t.line),
                              'the result of %s() is propagated to the caller (by `?` or an equivalent return)' % nm)
    # an initialiser called inside a closure handed to an iterator adaptor that drops Err items (Result is IntoIterator:
    # flat_map / filter_map / flatten skip the error) - seed C15-r4b
    for body in prog.bodies.values():
        if body in (sc, rc, pc) or not body.file.endswith('parallel.rs') or '{closure' not in body.key or not body.path.startswith(rpi.path):
            continue
        for blk, t in body.calls():
            if t.callee and t.callee.path in ('std::ops::FnOnce::call_once', 'std::ops::FnMut::call_mut', 'std::ops::Fn::call'):
                rs = cx.prov(body, t.args[0])
                for (pi, nm) in ((P_RINIT, 'reader_init'), (P_DINIT, 'dataset_init')):
                    if any(r.is_param(rpi.key, pi) for r in rs):
                        site_ = cx.cl.site.get(body.path) or (cx.cl.const_site.get(body.path) or [None])[0]
                        adaptor = None
                        if site_ is not None:
                            parent = site_[0]
                            for _, pt in parent.calls():
                                if pt.callee and pt.callee.name in ('flat_map', 'filter_map', 'flatten', 'map_while', 'filter') and closure_of_arg(prog, parent, pt, len(pt.args) - 1) is body:
                                    adaptor = pt.callee.name
                        n11[nm] = n11.get(nm, 0) + 1
                        R.add('PAR-11', body, 'init-result-propagated:%s#%d' % (nm, n11[nm]), adaptor is None, site(body, t.line),
                              'the result of %s() is produced inside a closure handed to Iterator::%s, which drops Err items' % (nm, adaptor) if adaptor else 'the result of %s() is produced inside a closure (not followed further)' % nm,
                              undecided=adaptor is None)
    for jb, jt in joins_h:
        R.add('PAR-11', sc, 'join-result-propagated', flows_to_try(sc, jt), site(sc, jt.line), 'the result of the reader thread (handle.join(), panic payload unwrapped) is propagated to the caller')
    R.floor('PAR-11', 4)

    # ---------------- PAR-12
    for body in prog.bodies.values():
        if not body.file.endswith('parallel.rs'):
            continue
        for blk, t in body.calls():
            if not (t.callee and t.callee.is_(PRN)):
                continue
            # the item (the Result carried by Some) is propagated as a whole: find the local holding `(next() as Some).0`
            items = []
            for x in body.cfg.reachable:
                for st in body.blocks[x].stmts:
                    if st.k == 'assign' and st.rv.k == 'use' and not st.rv.ops[0].is_const and st.place.is_local():
                        pl = st.rv.ops[0].place
                        if pl.local == t.dest.local and [q for q in pl.proj if q['k'] == 'downcast' and q['variant'] == 'Some'] \
                                and len([q for q in pl.proj if q['k'] == 'field']) == 1:
                            items.append(st.place.local)
            # ... or the Err payload is taken out in place by a pattern (`Some(Err(e)) => return Err(E::from(e))`)
            errs = []
            for x in body.cfg.reachable:
                for st in body.blocks[x].stmts:
                    if st.k == 'assign' and st.rv.k == 'use' and not st.rv.ops[0].is_const and st.place.is_local():
                        pl = st.rv.ops[0].place
                        vs = [q['variant'] for q in pl.proj if q['k'] == 'downcast']
                        if pl.local == t.dest.local and vs[:2] == ['Some', 'Err'] and len(vs) == 2:
                            errs.append(st.place.local)
            # the Ok payload is taken out by a pattern but the Err payload is never looked at (`while let Some(Ok(x)) = next()`):
            # an Err item ends the loop silently - recognised, and wrong
            oks = []
            for x in body.cfg.reachable:
                for st in body.blocks[x].stmts:
                    if st.k == 'assign' and not st.place.proj:
                        pls = [o.place for o in st.rv.ops if not o.is_const] + ([st.rv.place] if st.rv.place is not None else [])
                        for pl in pls:
                            vs = [q['variant'] for q in pl.proj if q['k'] == 'downcast']
                            if pl.local == t.dest.local and vs[:2] == ['Some', 'Ok']:
                                oks.append(st.place.local)
            whole = (bool(items) and all(propagates(body, l)[0] for l in items)) or (not items and bool(errs) and all(propagates(body, l)[0] for l in errs))
            R.add('PAR-12', body, 'item-propagated', whole, site(body, t.line),
                  'the Result item of ParallelRecordsets::next is handed on to the caller on its Err side (an Err item cannot end the loop silently): %s%s' % (
                      whole, '; the Ok payload is matched in place and the Err payload is never read' if (oks and not items and not errs) else ''),
                  undecided=not items and not errs and not oks)
            # a Result computed by the worker (second component of the Ok payload)
            for li, ty in enumerate(body.local_tys):
                if ty.startswith('std::result::Result<') and li > body.arg_count:
                    rs = roots_of(body, Place({'l': li, 'p': []}))
                    if any(r[0] == 'call' and r[1] is t and r[-1] and r[-1][-1][0] == 1 for r in rs):
                        ok, why = propagates(body, li)
                        R.add('PAR-12', body, 'worker-result-propagated', ok, site(body, t.line), 'the Result computed by the worker is handed on to the caller: %s' % ok)
    R.floor('PAR-12', 5)

    # ---------------- PAR-4
    par4(prog, R, cx)
    return cx


def propagates(body, local, payload_variant=None):
    """the value in `local` (a Result, or the Result inside Some when payload_variant='Some') is
    handed on to the caller of `body` on its Err side: it reaches the return place through `?`,
    an explicit `return Err(..)`, From/Into, Err/Some aggregates — and is not dropped/swallowed"""
    from rules_err import PROPAGATORS, SWALLOW
    sinks = forward_sinks(body, local, follow_refs=True, through=PROPAGATORS, skip_variants=('Ok', 'Continue'))
    ret = any(k == 'ret' and not via for (k, n, i, via) in sinks)
    drops = [n for (k, n, i, via) in sinks if k == 'drop' and not via]
    swallow = [n for (k, n, i, via) in sinks if k == 'call' and not via and n.callee and n.callee.path in SWALLOW and n.callee.path not in ('std::result::Result::unwrap', 'std::result::Result::expect')]
    return ret and not drops and not swallow, (ret, len(drops), [x.callee.path for x in swallow])


def par4(prog, R, cx):
    rpi = cx.rpi
    # worker / consumer closures = closures passed as param 5 / 6 of read_parallel_init or of
    # read_parallel (param 4 / 5), that contain a zip
    workers, consumers = [], []
    for body in prog.bodies.values():
        for blk, t in body.calls():
            if not t.callee:
                continue
            if t.callee.is_(RPI):
                wi, ci = 4, 5
            elif t.callee.is_('parallel::read_parallel'):
                wi, ci = 3, 4
            else:
                continue
            w = closure_of_arg(prog, body, t, wi)
            c = closure_of_arg(prog, body, t, ci)
            if w is not None and find_call(w, 'std::iter::Iterator::zip'):
                workers.append(w)
            if c is not None and find_call(c, 'std::iter::Iterator::zip'):
                consumers.append(c)
    for w in workers:
        # obligation independent of the loop shapes: every loop of the worker that steps through records hands each record to the
        # user's work function (mutation survey: deleting one of the two calls passes the suite, whose output type is ())
        nloop = 0
        for h, blks in sorted(w.cfg.natural_loops().items()):
            steps = [x for x in blks if w.blocks[x].term.k == 'call' and w.blocks[x].term.callee and w.blocks[x].term.callee.path == 'std::iter::Iterator::next']
            if not steps:
                continue
            nloop += 1
            works = [x for x in blks if w.blocks[x].term.k == 'call' and w.blocks[x].term.callee and w.blocks[x].term.callee.path in ('std::ops::Fn::call', 'std::ops::FnMut::call_mut')]
            inner = [h2 for h2, b2 in w.cfg.natural_loops().items() if h2 != h and h2 in blks]
            if inner and not works:
                continue     # an outer loop: judged at its inner loops
            R.add('PAR-4', w, 'record-loop-calls-the-work-function#%d' % nloop, bool(works), site(w, w.blocks[steps[0]].term.line),
                  'the loop stepping an iterator at line %s %s the work function' % (w.blocks[steps[0]].term.line, 'calls' if works else 'never calls'))
        zips = find_call(w, 'std::iter::Iterator::zip')
        if len(zips) != 1:
            R.undecided('PAR-4', w, 'shape', site(w, w.span['lo']), 'expected one zip in the worker')
            continue
        zb, zt = zips[0]
        a0 = roots_of(w, zt.args[0], through_calls=identity_through)
        a1 = roots_of(w, zt.args[1], through_calls=lambda c: None)
        first_is_out = bool(a0) and all(r[0] == 'call' and r[1].callee.is_('slice::iter_mut', 'core::slice::iter_mut') for r in a0)
        # second operand: &mut <local record iterator>, itself the result of into_iter on the set
        rec_local = None
        d = DefUse(w)
        if not zt.args[1].is_const:
            for dd in d.whole_defs(zt.args[1].place.local):
                if dd[2] == 'assign' and dd[3].rv.k == 'ref' and dd[3].rv.j['mut'] and dd[3].rv.place.is_local():
                    rec_local = dd[3].rv.place.local
        second_is_records = False
        if rec_local is not None:
            rr = roots_of(w, Place({'l': rec_local, 'p': []}), through_calls=lambda c: None)
            second_is_records = bool(rr) and all(r[0] == 'call' and r[1].callee.path == 'std::iter::IntoIterator::into_iter' for r in rr)
        R.add('PAR-4', w, 'zip-operand-order', first_is_out and second_is_records, site(w, zt.line),
              'zip(receiver=%s, argument=&mut record iterator: %s) — the output iterator must be polled first so that no record is consumed when the recycled output vector is shorter'
              % ('out.iter_mut()' if first_is_out else 'NOT out.iter_mut()', second_is_records))
        # surplus loop: iterates the same record iterator local
        surplus = None
        for h, blocks in w.cfg.natural_loops().items():
            for b in blocks:
                t = w.blocks[b].term
                if t.k == 'call' and t.callee and t.callee.path == 'std::iter::Iterator::next' and zb not in blocks:
                    srcs = set()
                    for r in roots_of(w, t.args[0], through_calls=iter_identity):
                        if r[0] == 'call':
                            srcs.add(id(r[1]))
                    rec_src = set(id(r[1]) for r in roots_of(w, Place({'l': rec_local, 'p': []}), through_calls=lambda c: None) if r[0] == 'call') if rec_local is not None else set()
                    if srcs and srcs == rec_src and not (t.callee.resolved or '').endswith('Zip as std::iter::Iterator>::next'):
                        surplus = (h, blocks, t, b)
        if surplus is None:
            R.add('PAR-4', w, 'surplus-loop', False, site(w, zt.line), 'no loop continuing on the record iterator after the zip')
            continue
        h, blocks, nt, nb = surplus
        R.add('PAR-4', w, 'surplus-loop', w.cfg.dominates(zb, nb), site(w, nt.line), 'surplus loop runs after the zip on the same iterator')
        pushes = [(b, t) for b, t in find_call(w, 'std::vec::Vec::push') if b in blocks]
        wcalls = [(b, t) for b, t in w.calls() if b in blocks and t.callee and t.callee.path in ('std::ops::Fn::call', 'std::ops::FnMut::call_mut')
                  and len(t.args) == 2 and (unwrap_aggs(w, t.args[1], [('tuple',)]) or [])]
        wcalls = [(b, t) for b, t in wcalls if len(unwrap_aggs(w, t.args[1], [('tuple',)])) >= 2]
        ok_push = len(pushes) == 1
        R.add('PAR-4', w, 'surplus-push-one-per-record', ok_push, site(w, nt.line), '%d push(es) per surplus record' % len(pushes))
        if ok_push and len(wcalls) == 1:
            pb_, pt = pushes[0]
            wb_, wt = wcalls[0]
            pv = roots_of(w, pt.args[1], through_calls=lambda c: None)
            init_ok = bool(pv) and all(r[0] == 'call' and r[1].callee.path in ('std::ops::Fn::call', 'std::default::Default::default', 'std::ops::FnMut::call_mut') for r in pv)
            R.add('PAR-4', w, 'surplus-push-initialised', init_ok, site(w, pt.line), 'pushed value <- %s' % [r[1].callee.path for r in pv if r[0] == 'call'])
            ops = unwrap_aggs(w, wt.args[1], [('tuple',)])
            r0 = roots_of(w, ops[0], through_calls=lambda c: None)
            r1 = roots_of(w, ops[1], through_calls=identity_through)
            ok0 = bool(r0) and all(r[0] == 'call' and r[1] is nt for r in r0)
            ok1 = bool(r1) and all(r[0] == 'call' and r[1].callee.is_('slice::last_mut', 'core::slice::last_mut') for r in r1)
            R.add('PAR-4', w, 'surplus-worker-args', ok0 and ok1 and w.cfg.dominates(pb_, wb_), site(w, wt.line),
                  'worker(record <- loop item: %s, out <- last_mut() after the push: %s)' % (ok0, ok1))
        else:
            R.add('PAR-4', w, 'surplus-worker-args', False, site(w, nt.line), 'expected one worker call in the surplus loop, found %d' % len(wcalls))
        # first loop: worker(item.1, item.0)
        znext = [(b, t) for b, t in w.calls() if t.callee and (t.callee.resolved or '').endswith('Zip as std::iter::Iterator>::next')]
        for b, t in znext:
            for b2, t2 in w.calls():
                if t2.callee and t2.callee.path in ('std::ops::Fn::call', 'std::ops::FnMut::call_mut') and b2 not in blocks and len(t2.args) == 2:
                    ops = unwrap_aggs(w, t2.args[1], [('tuple',)])
                    if not ops or len(ops) < 2:
                        continue
                    r0 = roots_of(w, ops[0], through_calls=lambda c: None)
                    r1 = roots_of(w, ops[1], through_calls=lambda c: None)
                    ok0 = bool(r0) and all(r[0] == 'call' and r[1] is t and r[-1] and r[-1][-1][0] == 1 for r in r0)
                    ok1 = bool(r1) and all(r[0] == 'call' and r[1] is t and r[-1] and r[-1][-1][0] == 0 for r in r1)
                    R.add('PAR-4', w, 'zip-item-slots', ok0 and ok1, site(w, t2.line), 'worker(record <- item.1: %s, out <- item.0: %s)' % (ok0, ok1))
    for c in consumers:
        for zb, zt in find_call(c, 'std::iter::Iterator::zip'):
            a0 = roots_of(c, zt.args[0], through_calls=lambda x: None)
            a1 = roots_of(c, zt.args[1], through_calls=identity_through)
            rec_first = bool(a0) and all(r[0] == 'call' and r[1].callee.path == 'std::iter::IntoIterator::into_iter' and 'RecordSet' in (r[1].callee.resolved or 'RecordSet') for r in a0)
            znext = [(b, t) for b, t in c.calls() if t.callee and (t.callee.resolved or '').endswith('Zip as std::iter::Iterator>::next')]
            for b, t in znext:
                for b2, t2 in c.calls():
                    if t2.callee and t2.callee.path in ('std::ops::Fn::call', 'std::ops::FnMut::call_mut') and len(t2.args) == 2:
                        ops = unwrap_aggs(c, t2.args[1], [('tuple',)])
                        if not ops or len(ops) < 2:
                            continue
                        r0 = roots_of(c, ops[0], through_calls=lambda x: None)
                        r1 = roots_of(c, ops[1], through_calls=lambda x: None)
                        i0 = set(r[-1][-1][0] for r in r0 if r[0] == 'call' and r[1] is t and r[-1])
                        i1 = set(r[-1][-1][0] for r in r1 if r[0] == 'call' and r[1] is t and r[-1])
                        want0, want1 = ({0}, {1}) if rec_first else ({1}, {0})
                        R.add('PAR-4', c, 'consumer-pairs-in-order', i0 == want0 and i1 == want1, site(c, t2.line),
                              'func(record <- zip item.%s, out <- zip item.%s), records are zip operand %d' % (sorted(i0), sorted(i1), 0 if rec_first else 1))
    R.floor('PAR-4', 21)

